"""GROWTH family "Reshare" - the resharing ceremony behind `charon alpha edit` reshare / add-operators / remove-operators /
replace-operator (dkg/pedersen/reshare.go RunReshareDKG, restoreCommitsFromPubShares, restoreDistKeyShare, restoreCommits,
validatePubKeyShares, validateReshareNodeCounts, broadcastNoneKey; its use of board.go / config.go / dkg.go processKey,
readBoardChannel; drand/kyber share/dkg resharing in FastSync mode; the node sets and thresholds that dkg/protocol_reshare.go,
protocol_addoperators.go, protocol_removeoperators.go and protocol_replaceoperator.go produce).

specs/Reshare/Reshare.tla transcribes one ceremony: the key exchange with the public shares, the refusals (case enumeration,
the spec is the oracle), the classification into kyber's old / new nodes with the compact re-indexing of a remove-only
ceremony, per validator a resharing round (deal -> response -> Lagrange result over the first OldThreshold dealers; a leaving
node deals only and announces the none key) and the board's one-message-per-peer collection; algebra over GF(p) in the
exponent.  TLC (a) checks the contract (group key unchanged, same tables, own share matches, any NewT new shares at the new
cluster's share indices sign under the OLD key and NewT-1 do not, old shares stay valid, all-or-nothing) for every polynomial
of a small field / every interleaving and refutes it for the control variants, (b) generates ceremony schedules; the executor
runs every schedule on one goroutine per participant executing the real RunReshareDKG over an in-memory libp2p host inside
testing/synctest and logs the packets, the returns and relations computed with real tbls calls; TLC validates every trace.

`stage(o, tier, seed)` runs the family as a stage (the Outcome collects coverage and violations); `main(tier, seed)` is the
stand-alone driver, `replay(path)` re-runs a replay file."""
import json, os, time
import vlib
from vlib import log

FAMILY = "Reshare"
PKG = "reshare"
TRACE = "ReshareTrace"
TCFG = "ReshareTrace.cfg"
DEV = [("GROW-RESHARE-nonekey-dup", "ReshareTrace_dev_nonedup.cfg"), ("GROW-RESHARE-rmall-index", "ReshareTrace_dev_rmall.cfg")]
PRIMES = [7, 11, 13]

RULE = ("Reshare stage: schedules = one ceremony each: a configuration (original cluster N0 in 3..5 with threshold T, the PeerMap, "
        "who holds shares, AddedPeers / RemovedPeers, NewThreshold, V in 1..2 validators) of the four edit shapes (reshare, add 1-2 "
        "operators, remove operators that stay away or still contribute, replace an operator), refused configurations (case "
        "enumeration of validateReshareNodeCounts and the other refusals) and faulty inputs (an operator that lost its shares or one "
        "of them, a joining operator whose lock names another key) + the environment's moves Start(i) / deliver deal bundle, "
        "response bundle, validator public-key-share message (or none key) i->j of validator v, first deliveries in every order the "
        "protocol allows and re-deliveries; generated (a) by TLC simulation of ReshareGen, (b) by a seeded generator of structured "
        "orders (lock-step, reversed, straggler, sprinter, leaver-last, random), (c) dedicated probes (a re-delivered none key that "
        "fills a slow node's share channel; a remove-only ceremony whose participants all have a peer index >= the new size; a "
        "leaver that has every response before its last deal); executed on one goroutine per participant running the unmodified "
        "pedersen.RunReshareDKG with real boards and real reliable broadcast over an in-memory libp2p host under testing/synctest, "
        "old shares from tbls.ThresholdSplit or a real prior pedersen.RunDKG; every completed ceremony ends with relations over ALL "
        "subsets of exactly NewT new shares (at the new cluster's share indices, under the PRE-reshare group key), NewT-1 new shares, "
        "T old shares and mixtures, computed with real tbls calls")
ASSUMPTIONS = [
    "Reshare stage: algebra abstraction as in the Pedersen / FROST stages (everything in the exponent over GF(p); the oracle is the "
    "RELATION; the model polynomials are a witness chosen by the schedule, the real nodes draw their own); negative relations "
    "(NewT-1 new shares, mixtures of old and new shares) are demanded when the witness refutes them; kyber's ECIES encryption, the "
    "BLS authentication of bundles and the session nonce (generateNonce) are not modelled (honest nodes: they verify)",
    "Reshare stage: all nodes are honest and hold consistent old shares; the node public keys (with the public shares) travel over "
    "the reliable broadcast (C13) and are delivered at once; no timeout fires (virtual time stands still while a schedule runs: "
    "kyber's time phaser, the board's collection timeout and p2p's receive timeout play no part), so complaints, justifications and "
    "evictions do not occur, a ceremony with a faulty input ends stuck instead of timing out, and a leaving node that has every "
    "response before its last deal waits (observation: only kyber's time phaser, 2 phases, gets it on)",
    "Reshare stage: the configuration handed to RunReshareDKG is the one the protocol wrappers of package dkg build; the wrappers "
    "themselves (lock update, signature exchange, validation of --participating-operator-enrs) are not executed; the contract's "
    "share index of a member of the new cluster is its position in the new cluster lock",
    "Reshare stage: nodes run eagerly between two stimuli (exact quiescence through testing/synctest); a slow node is modelled by "
    "late deliveries to it (ReshareMC checks the free interleaving for 3 participants)",
]
CONTROLS = [("ReshareMC_ctl_nocompact.cfg", "AnyTRecover", "remove-only ceremony without the compact re-indexing of the new nodes"),
            ("ReshareMC_ctl_sumshares.cfg", "GroupKeyUnchanged", "new share = plain sum of the dealt shares (fresh-DKG result)"),
            ("ReshareMC_ctl_newtdealers.cfg", "GroupKeyUnchanged", "interpolation over the first NewThreshold dealers"),
            ("ReshareMC_ctl_oldrank.cfg", "GroupKeyUnchanged", "dealers interpolated at their rank instead of their original index"),
            ("ReshareMC_ctl_leaverkey.cfg", "KeyedByShareIdx", "a leaving node announces its old public share instead of the none key"),
            ("ReshareMC_ctl_defaultnt.cfg", "ThresholdIsNT", "configured new threshold ignored"),
            ("ReshareMC_ctl_noexpected.cfg", "ExpectedRespected", "a joining node does not compare the restored key with its lock's"),
            ("ReshareMC_ctl_nonedup.cfg", "deadlock", "as coded: a re-delivered none key fills a slow node's share channel (GROW-RESHARE-nonekey-dup)"),
            ("ReshareMC_ctl_rmall.cfg", "NoFailure", "as coded: 'one original node remains' compared by kyber index after re-indexing (GROW-RESHARE-rmall-index)"),
            ("ReshareMC_ctl_leaverwait.cfg", "deadlock", "time stands still: a leaver with every response before its last deal waits for the phaser"),
            ("ReshareMC_ctl_phaser.cfg", "NoPhaserNeeded", "... and only kyber's time phaser gets it on"),
            ("ReshareMC_ctl_live_lost.cfg", "temporal", "an old operator lost its shares: the ceremony cannot end (only the timeouts end it)"),
            ("ReshareMC_ctl_live_nophaser.cfg", "temporal", "every message delivered, no phaser: a ceremony with a leaver need not end"),
            ("ReshareMC_ctl_mixed.cfg", "MixedAlwaysRecovers", "a mixture of old and new shares is NOT a sharing of the key (the claim that it is must fail)")]
QUICK_MC = ["ReshareMC_quick.cfg", "ReshareMC_alg_quick.cfg", "ReshareMC_order_quick.cfg", "ReshareMC_nonedup_safe.cfg", "ReshareMC_live.cfg"]
THOROUGH_MC = ["ReshareMC_quick.cfg", "ReshareMC_alg.cfg", "ReshareMC_alg_t3.cfg", "ReshareMC_order.cfg", "ReshareMC_free.cfg",
               "ReshareMC_n4.cfg", "ReshareMC_fault.cfg", "ReshareMC_nonedup_safe.cfg", "ReshareMC_live.cfg"]


# ----------------------------------------------------------------------------------------------
# configurations (the spec recomputes everything it demands: nothing here is an oracle)
# ----------------------------------------------------------------------------------------------
def dflt(n):
    return (2 * n + 2) // 3


class Shape:
    def __init__(self, M, N0, part, holders, added, removed, T, NT, V, short=(), badexp=(), name=""):
        self.M, self.N0, self.T, self.NT, self.V, self.name = M, N0, T, NT, V, name
        self.part, self.holders, self.added, self.removed = sorted(part), sorted(holders), sorted(added), sorted(removed)
        self.short, self.badexp = sorted(short), sorted(list(b) for b in badexp)
        P = set(self.part)
        self.A, self.R = set(added) & P, set(removed) & P
        self.O, self.Nw = sorted(P - self.A), sorted(P - self.R)
        self.nshares = {k: ((V - 1 if k in self.short else V) if k in self.holders else 0) for k in self.part}
        self.senders = sorted(k for k in self.part if self.nshares[k] > 0)
        self.dealers = sorted(set(self.O) & set(self.senders))
        self.compact = bool(removed) and not added
        self.newT = dflt(len(self.Nw)) if NT <= 0 else NT

    def newx(self, i):
        return (self.Nw.index(i) + 1) if self.compact else i

    def polylen(self, i):
        return self.newT - 1 if i in self.senders and self.newT >= 1 else 0

    def classes(self, i, mode="required"):
        c = set()
        if any(self.nshares[k] != self.V for k in self.senders):
            c.add("sharecount")
        if len(self.senders) < self.T:
            c.add("restore")
        if self.removed and len(self.O) < self.T:
            c.add("rmcount")
        if self.added and len(self.Nw) <= len(self.O):
            c.add("addcount")
        if self.added and i not in self.A and i not in self.senders:
            c.add("noshare")
        if self.removed:
            if mode == "required":
                if not set(self.O) & set(self.Nw):
                    c.add("rmall")
            elif not any(o == self.newx(w) for o in self.O for w in self.Nw):
                c.add("rmall")
        if self.newT < 1 or self.newT > len(self.Nw):
            c.add("threshold")
        return c

    def both(self):
        return bool(set(self.added) & set(self.removed))

    def cfg(self, r, seed, kind, src="split"):
        p = r.choice([q for q in PRIMES if q > self.M])
        return {"ev": "Cfg", "M": self.M, "N0": self.N0, "part": self.part, "holders": self.holders, "added": self.added,
                "removed": self.removed, "short": self.short, "badexp": self.badexp, "T": self.T, "NT": self.NT, "V": self.V,
                "p": p, "opoly": [[r.randrange(p) for _ in range(self.T)] for _ in range(self.V)],
                "nt": self.newT, "newidx": [[i, self.newx(i)] for i in self.Nw],
                "seed": seed, "kind": kind, "shape": self.name, "src": src}

    def witness(self, r, p, i):
        return [[r.randrange(p) for _ in range(self.polylen(i))] for _ in range(self.V)]


def shape_reshare(r, N0, T, V, vary_nt=False):
    nt = r.randint(1, N0) if vary_nt else T
    return Shape(N0, N0, range(1, N0 + 1), range(1, N0 + 1), [], [], T, nt, V, name="reshare")


def shape_add(r, N0, T, V, k, nt=None):
    """nt: add-operators keeps the threshold; RunReshareDKG itself takes any new threshold"""
    return Shape(N0 + k, N0, range(1, N0 + k + 1), range(1, N0 + 1), range(N0 + 1, N0 + k + 1), [], T, T if nt is None else nt, V,
                 name="add" if nt is None else "add-nt")


def shape_remove(r, N0, T, V, gone, leavers=(), nt=0):
    """gone: removed operators that stay away, leavers: removed operators that still contribute"""
    part = [i for i in range(1, N0 + 1) if i not in gone]
    return Shape(N0, N0, part, part, [], sorted(set(gone) | set(leavers)), T, nt, V, name="remove" + ("-p" if leavers else ""))


def shape_replace(r, N0, T, V, pos):
    part = range(1, N0 + 1)
    return Shape(N0 + 1, N0, part, [i for i in part if i != pos], [pos], [N0 + 1], T, T, V, name="replace")


def remove_nt(r, n_new):
    """the values `charon alpha edit remove-operators --new-threshold` lets through, or the default (0)"""
    ok = [x for x in range(dflt(n_new), n_new)]
    return r.choice(ok + [0, 0]) if ok else 0


def random_shape(r, k):
    """acceptable configurations of the four edit commands"""
    for _ in range(200):
        N0 = r.choice([3, 4, 4, 5, 5])
        T = r.choice([dflt(N0), dflt(N0), r.randint(2, N0)])
        V = r.choice([1, 2, 2])
        what = ["reshare", "add", "remove", "removep", "replace", "reshare-nt", "add-nt"][k % 7]
        if what == "reshare":
            s = shape_reshare(r, N0, T, V)
        elif what == "reshare-nt":
            s = shape_reshare(r, N0, T, V, vary_nt=True)
        elif what == "add":
            s = shape_add(r, min(N0, 4), min(T, min(N0, 4)), V, r.choice([1, 1, 2]) if N0 <= 3 else 1)
        elif what == "add-nt":
            n = min(N0, 4)
            s = shape_add(r, n, min(T, n), V, 1, nt=r.randint(1, n + 1))
        elif what == "remove":
            if N0 - T < 1:
                continue
            gone = r.sample(range(1, N0 + 1), r.randint(1, N0 - T))
            s = shape_remove(r, N0, T, V, gone, nt=remove_nt(r, N0 - len(gone)))
        elif what == "removep":
            m = r.randint(1, N0 - 1)
            rem = r.sample(range(1, N0 + 1), m)
            leavers = r.sample(rem, r.randint(1, m))
            gone = [x for x in rem if x not in leavers]
            if N0 - len(gone) < T:
                continue
            s = shape_remove(r, N0, T, V, gone, leavers, nt=remove_nt(r, N0 - m))
        else:
            if N0 - 1 < T:
                continue
            s = shape_replace(r, N0, T, V, r.randint(1, N0))
        if not s.both() and all(not s.classes(i, "ascoded") for i in s.part):
            return s
    raise vlib.Infra("no acceptable configuration drawn")


# ----------------------------------------------------------------------------------------------
# seeded schedule generator: a simulator of the spec's enabling conditions (nodes run eagerly)
# ----------------------------------------------------------------------------------------------
class Sim:
    """none 'dedup' = required (a re-delivered none key is dropped), 'ascoded' = it is queued again;
    rmall 'required' | 'ascoded' (how the 'one original node remains' refusal is evaluated)."""

    def __init__(self, s, none="dedup", rmall="required"):
        self.s, self.none, self.rmall = s, none, rmall
        self.P = list(s.part)
        self.phase = {i: "idle" for i in self.P}
        self.cur = {i: 0 for i in self.P}
        self.deal = {i: set() for i in self.P}
        self.resp = {i: set() for i in self.P}
        self.queue = {i: [] for i in self.P}
        self.shdel = {i: set() for i in self.P}
        self.seen = {i: set() for i in self.P}

    def running(self, i):
        return self.phase[i] in ("deal", "resp", "wait", "push", "coll", "done")

    def past(self, i, v):
        return self.phase[i] == "failed" and self.cur[i] > v

    def dealt(self, i, v):
        return i in self.s.dealers and ((self.running(i) and self.cur[i] >= v) or self.past(i, v))

    def responded(self, i, v):
        return i in self.s.Nw and (self.past(i, v) or (self.running(i) and (
            self.cur[i] > v or (self.cur[i] == v and self.phase[i] in ("resp", "push", "coll", "done")))))

    def shared(self, i, v):
        return self.past(i, v) or (self.running(i) and (self.cur[i] > v or (self.cur[i] == v and self.phase[i] in ("push", "coll", "done"))))

    def room(self, j):
        return len(self.queue[j]) < len(self.P)

    def first(self):
        """starts and first deliveries that are possible now"""
        mv = [("Start", 0, i, i, 0) for i in self.P if self.phase[i] == "idle"]
        for i in self.P:
            for j in self.P:
                if i == j:
                    continue
                for v in range(self.s.V):
                    if self.dealt(i, v) and (i, v) not in self.deal[j]:
                        mv.append(("D", 1, i, j, v))
                    if self.responded(i, v) and (i, v) not in self.resp[j]:
                        mv.append(("D", 2, i, j, v))
                    if self.shared(i, v) and (i, v) not in self.shdel[j] and self.room(j):
                        mv.append(("D", 4, i, j, v))
        return mv

    def harmless_re(self):
        """re-deliveries on which required behaviour and code as written agree"""
        mv = []
        for j in self.P:
            for (i, v) in self.deal[j]:
                mv.append(("D", 1, i, j, v))
            for (i, v) in self.resp[j]:
                mv.append(("D", 2, i, j, v))
            for (i, v) in self.shdel[j]:
                if i in self.s.Nw:
                    mv.append(("D", 4, i, j, v))          # a key: dropped by the board
                elif (self.phase[j] == "coll" and self.cur[j] == v and i in self.seen[j] and self.room(j)) or \
                        (self.phase[j] == "done" and len(self.queue[j]) < len(self.P) - 1):
                    mv.append(("D", 4, i, j, v))          # a none key: queued, never counted
        return mv

    def apply(self, m):
        ev, k, i, j, v = m
        if ev == "Start":
            assert self.phase[i] == "idle"
            self.phase[i] = "failed" if self.s.both() else "keys"
        elif k == 1:
            assert self.dealt(i, v), "deal bundle not sent yet"
            self.deal[j].add((i, v))
        elif k == 2:
            assert self.responded(i, v), "response bundle not sent yet"
            self.resp[j].add((i, v))
        else:
            assert self.shared(i, v), "share message not sent yet"
            if (i, v) not in self.shdel[j]:
                assert self.room(j)
                self.shdel[j].add((i, v))
                self.queue[j].append((i, v))
            elif i not in self.s.Nw and self.none == "ascoded":
                assert self.room(j), "re-delivery into a full channel"
                self.queue[j].append((i, v))
        self.settle()

    def enter(self, j, v):
        if j not in self.s.senders and [j, v] in self.s.badexp:
            self.phase[j], self.cur[j] = "failed", v
        else:
            self.phase[j], self.cur[j] = "deal", v

    def settle(self):
        s = self.s
        progress = True
        while progress:
            progress = False
            for j in self.P:
                ph, v = self.phase[j], self.cur[j]
                if ph == "keys" and all(self.phase[k] != "idle" for k in self.P):
                    if s.classes(j, self.rmall):
                        self.phase[j] = "failed"
                    else:
                        self.enter(j, 0)
                elif ph == "deal" and all((i == j and j in s.dealers) or (i, v) in self.deal[j] for i in s.O):
                    if j in s.Nw:
                        self.phase[j] = "resp"
                    else:
                        self.phase[j] = "wait" if all((i, v) in self.resp[j] for i in s.Nw) else "resp"
                elif ph == "resp" and all(i == j or (i, v) in self.resp[j] for i in s.Nw):
                    self.phase[j] = "push"
                elif ph == "push" and self.room(j):
                    self.queue[j].append((j, v))
                    self.phase[j], self.seen[j] = "coll", set()
                elif ph == "coll" and self.queue[j]:
                    src, _ = self.queue[j].pop(0)
                    self.seen[j].add(src)
                    if len(self.seen[j]) == len(self.P):
                        self.seen[j] = set()
                        if v + 1 < s.V:
                            self.enter(j, v + 1)
                        else:
                            self.phase[j] = "done"
                else:
                    continue
                progress = True

    def all_done(self):
        return all(p == "done" for p in self.phase.values())

    def stuck(self):
        return any(p in ("wait", "push") for p in self.phase.values())


def step_of(m, c=None):
    ev, k, i, j, v = m
    if ev == "Start":
        return {"ev": "Start", "i": i, "c": c}
    return {"ev": "D", "k": k, "i": i, "j": j, "v": v}


KINDS = ["random", "lockstep", "reverse", "straggler", "sprinter", "valrace", "leaverlast"]


def ceremony(r, s, kind, seed, re_prob=0.06, max_re=4, src="split"):
    """one ceremony in a delivery order of the given kind; a leaver never gets its last response before its last deal (that
    case is a dedicated probe: it waits for kyber's time phaser)"""
    cfg = s.cfg(r, seed, kind, src)
    p = cfg["p"]
    sim = Sim(s)
    steps = [cfg]
    special = r.choice(s.part)
    leavers = [i for i in s.part if i not in s.Nw]
    nre = 0
    while True:
        en = sim.first()

        def waits(m):       # would leave a leaver waiting for the phaser
            if m[0] != "D" or m[1] != 2 or m[3] not in leavers:
                return False
            j, v = m[3], m[4]
            have = {i for (i, vv) in sim.resp[j] if vv == v} | {m[2]}
            deals_in = all((i == j and j in s.dealers) or (i, v) in sim.deal[j] for i in s.O)
            return not deals_in and have >= set(s.Nw)
        en = [m for m in en if not waits(m)]
        if not en:
            break
        re = sim.harmless_re() if nre < max_re else []
        if re and r.random() < re_prob:
            m = r.choice(re)
            nre += 1
        else:
            tgt = lambda x: x[3]
            stage = lambda x: (x[4], x[1])
            if kind == "random":
                m = r.choice(en)
            elif kind == "lockstep":
                st = min(stage(x) for x in en)
                m = r.choice([x for x in en if stage(x) == st])
            elif kind == "reverse":
                st = min(stage(x) for x in en)
                m = max([x for x in en if stage(x) == st], key=lambda x: (tgt(x), x[2]))
            elif kind == "straggler":
                rest = [x for x in en if tgt(x) != special]
                m = r.choice(rest) if rest else r.choice(en)
            elif kind == "sprinter":
                mine = [x for x in en if tgt(x) == special or x[0] == "Start"]
                m = r.choice(mine) if mine else r.choice(en)
            elif kind == "valrace":
                st = max(stage(x) for x in en)
                m = r.choice([x for x in en if stage(x) == st])
            elif kind == "leaverlast":      # everything that serves a member of the new cluster first
                rest = [x for x in en if tgt(x) not in leavers]
                m = r.choice(rest) if rest else r.choice(en)
            else:
                raise ValueError(kind)
        sim.apply(m)
        steps.append(step_of(m, s.witness(r, p, m[2]) if m[0] == "Start" else None))
    assert sim.all_done() and not sim.stuck(), "ceremony generator stuck: %s %s" % (s.name, sim.phase)
    return steps


def random_schedules(seed, count):
    r = vlib.rng(seed, "reshrnd")
    out = []
    for k in range(count):
        s = random_shape(r, k)
        out.append(ceremony(r, s, KINDS[(k // 7) % len(KINDS)], seed, src="dkg" if k % 9 == 4 else "split"))
    return out


def corner_schedules(seed):
    """every shape once in a fixed small size; thresholds below, at and above the default"""
    r = vlib.rng(seed, "reshcorner")
    sh = [shape_reshare(r, 4, 3, 2), shape_reshare(r, 3, 2, 1), shape_add(r, 4, 3, 1, 1), shape_add(r, 3, 2, 2, 2),
          shape_remove(r, 4, 3, 2, [2]), shape_remove(r, 5, 4, 1, [], [1]), shape_remove(r, 5, 3, 1, [5], [2], nt=0),
          shape_remove(r, 4, 3, 2, [], [4], nt=2), shape_replace(r, 4, 3, 2, 3), shape_replace(r, 5, 4, 1, 1),
          Shape(5, 5, [1, 2, 3, 4, 5], [1, 2, 3, 4, 5], [], [], 4, 2, 1, name="reshare-nt"),
          Shape(4, 4, [1, 2, 3, 4], [1, 2, 3, 4], [], [], 2, 4, 1, name="reshare-nt"),
          shape_add(r, 4, 3, 1, 1, nt=2), shape_add(r, 3, 2, 1, 1, nt=3)]
    return [ceremony(r, s, KINDS[k % len(KINDS)], seed, src="dkg" if k in (0, 4) else "split") for k, s in enumerate(sh)]


def start_all(r, s, seed, kind):
    """every participant starts; then whatever the (required) spec allows, lock-step, until nothing is possible"""
    cfg = s.cfg(r, seed, kind)
    sim = Sim(s)
    steps = [cfg]
    for _ in range(400):
        en = sim.first()
        if not en:
            break
        st = min((x[4], x[1]) for x in en)
        m = r.choice([x for x in en if (x[4], x[1]) == st])
        sim.apply(m)
        steps.append(step_of(m, s.witness(r, cfg["p"], m[2]) if m[0] == "Start" else None))
    return steps


def refusal_schedules(seed, count):
    """case enumeration: node counts / thresholds around every refusal (the spec decides which are refused)"""
    r = vlib.rng(seed, "reshrefuse")
    pool = []
    for N0 in (3, 4, 5):
        for T in range(2, N0 + 1):
            for m in range(1, N0 + 1):                     # remove m operators that stay away: fewer than T left -> refused
                gone = list(range(1, m + 1)) if r.random() < 0.5 else r.sample(range(1, N0 + 1), m)
                if m < N0:
                    pool.append(shape_remove(r, N0, T, 1, gone, nt=r.choice([0, 0, 1, N0 - m, N0 - m + 1])))
                pool.append(shape_remove(r, N0, T, 1, [], gone, nt=0))          # they all contribute: everybody may leave
            pool.append(shape_replace(r, N0, T, 1, r.randint(1, N0)))             # refused in an N0-of-N0 cluster
            pool.append(shape_reshare(r, N0, T, 1, vary_nt=True))
            pool.append(Shape(N0, N0, range(1, N0 + 1), range(1, N0 + 1), [], [], T, N0 + 1, 1, name="nt-big"))
            # as many leave as join; an added peer that is not in the PeerMap; a peer both added and removed
            pool.append(Shape(N0 + 1, N0, range(1, N0 + 2), range(1, N0 + 1), [N0 + 1], [1], T, T, 1, name="swap"))
            pool.append(Shape(N0 + 1, N0, range(1, N0 + 1), range(1, N0 + 1), [N0 + 1], [], T, T, 1, name="add-absent"))
            pool.append(Shape(N0 + 1, N0, range(1, N0 + 2), range(1, N0 + 1), [N0 + 1], [N0 + 1], T, T, 1, name="both"))
    pool = [s for s in pool if not any(s.classes(i, "required") != s.classes(i, "ascoded") for i in s.part)]
    r.shuffle(pool)
    return [start_all(r, s, seed, "refusal") for s in pool[:count]]


def fault_schedules(seed, count):
    """faulty inputs: lost shares (all / one of them), a joining operator whose lock names another group key"""
    r = vlib.rng(seed, "reshfault")
    out = []
    for k in range(count):
        N0 = r.choice([3, 4])
        T = dflt(N0)
        V = 2
        w = k % 4
        if w == 0:      # an old operator lost its shares in a reshare / remove
            s = Shape(N0, N0, range(1, N0 + 1), r.sample(range(1, N0 + 1), N0 - 1), [], [], T, T, V, name="lost")
        elif w == 1:    # ... in an add: it refuses
            s = Shape(N0 + 1, N0, range(1, N0 + 2), r.sample(range(1, N0 + 1), N0 - 1), [N0 + 1], [], T, T, V, name="lost-add")
        elif w == 2:    # one share file is missing
            s = Shape(N0, N0, range(1, N0 + 1), range(1, N0 + 1), [], [], T, T, V, short=[r.randint(1, N0)], name="short")
        else:           # the joining operator's lock names another key for validator 0 or 1
            s = Shape(N0 + 1, N0, range(1, N0 + 2), range(1, N0 + 1), [N0 + 1], [], T, T, V, badexp=[[N0 + 1, r.randrange(V)]], name="badexp")
        out.append(start_all(r, s, seed, "fault"))
    return out


def from_tlc(scheds, seed):
    out = []
    for s in scheds:
        cfg = dict(s[0])
        cfg.update({"seed": seed, "kind": "tlc", "src": "split"})
        sh = Shape(cfg["M"], cfg["N0"], cfg["part"], cfg["holders"], cfg["added"], cfg["removed"], cfg["T"], cfg["NT"], cfg["V"])
        if any(sh.classes(i, "ascoded") for i in sh.part):     # required and as-coded differ: a probe's business
            continue
        out.append([cfg] + list(s[1:]))
    return out


# ----------------------------------------------------------------------------------------------
# probes: the two findings and the observation
# ----------------------------------------------------------------------------------------------
def probe_nonedup(r, seed, N0=3, V=1):
    """A leaver's none key reaches the slowest member twice before that member finishes its round: its share channel is
    full when it pushes its own entry.  Valid behaviour of the required spec (the duplicate is dropped) and of the code as
    written (queued): they differ in whether the slow member returns."""
    T = dflt(N0)
    leaver = r.randint(1, N0)
    s = shape_remove(r, N0, T, V, [], [leaver], nt=0)
    slow = r.choice(s.Nw)
    cfg = s.cfg(r, seed, "probe-nonedup")
    req = Sim(s, "dedup")
    steps = [cfg]

    def do(m):
        req.apply(m)
        steps.append(step_of(m, s.witness(r, cfg["p"], m[2]) if m[0] == "Start" else None))

    def run(cond, skip):
        for _ in range(2000):
            if cond():
                return
            en = [m for m in req.first() if not skip(m)]
            assert en, "probe construction stuck"
            st = min((m[4], m[1]) for m in en)
            do(r.choice([m for m in en if (m[4], m[1]) == st]))
        raise AssertionError("probe construction does not end")
    # everybody but `slow` finishes round 0 (slow lacks one response), all their share messages reach slow
    holdback = [i for i in s.Nw if i != slow][0]
    run(lambda: all(req.shared(i, 0) for i in s.part if i != slow) and
        all((i, 0) in req.shdel[slow] for i in s.part if i != slow),
        lambda m: m == ("D", 2, holdback, slow, 0) or (m[1] == 4 and m[3] != slow) or m[4] > 0)
    do(("D", 4, leaver, slow, 0))                      # the duplicate none key
    do(("D", 2, holdback, slow, 0))                    # slow finishes its round: sends, then pushes its own entry
    # the rest (required spec: everything completes)
    for _ in range(2000):
        en = req.first()
        if not en:
            break
        st = min((m[4], m[1]) for m in en)
        do(r.choice([m for m in en if (m[4], m[1]) == st]))
    assert req.all_done()
    return steps


def probe_rmall(r, seed):
    """remove-only ceremony whose participants all have a peer index >= the size of the new cluster (insecure threshold 2 of 4,
    operators 1 and 2 removed and absent): acceptable, refused by the code as written"""
    s = shape_remove(r, 4, 2, r.choice([1, 2]), [1, 2], nt=0)
    cfg = s.cfg(r, seed, "probe-rmall")
    sim = Sim(s)
    steps = [cfg]
    for _ in range(2000):
        en = sim.first()
        if not en:
            break
        st = min((m[4], m[1]) for m in en)
        m = r.choice([x for x in en if (x[4], x[1]) == st])
        sim.apply(m)
        steps.append(step_of(m, s.witness(r, cfg["p"], m[2]) if m[0] == "Start" else None))
    assert sim.all_done()
    return steps


def probe_leaverwait(r, seed, N0=4):
    """a leaver has every response before its last deal bundle: it waits for the phaser, the ceremony stands (time stands still)"""
    T = dflt(N0)
    leaver = r.randint(1, N0)
    s = shape_remove(r, N0, T, 1, [], [leaver], nt=0)
    cfg = s.cfg(r, seed, "probe-leaverwait")
    sim = Sim(s)
    steps = [cfg]
    late = r.choice([i for i in s.dealers if i != leaver])
    for _ in range(2000):
        en = [m for m in sim.first() if m != ("D", 1, late, leaver, 0)]
        if not en:
            break
        st = min((m[4], m[1]) for m in en)
        m = r.choice([x for x in en if (x[4], x[1]) == st])
        sim.apply(m)
        steps.append(step_of(m, s.witness(r, cfg["p"], m[2]) if m[0] == "Start" else None))
    sim.apply(("D", 1, late, leaver, 0))
    steps.append(step_of(("D", 1, late, leaver, 0)))
    assert sim.phase[leaver] == "wait"
    return steps


def probe_schedules(seed, thorough):
    r = vlib.rng(seed, "reshprobe")
    out = [probe_nonedup(r, seed, 3 + seed % 2, 1), probe_rmall(r, seed), probe_leaverwait(r, seed, 3 + (seed + 1) % 2)]
    if thorough:
        out += [probe_nonedup(r, seed, 4, 2), probe_nonedup(r, seed, 5, 1), probe_leaverwait(r, seed, 5), probe_rmall(r, seed)]
    return out


# ----------------------------------------------------------------------------------------------
# binding negative controls
# ----------------------------------------------------------------------------------------------
def mutators():
    def find(t, ev, pred=lambda e: True):
        for i, e in enumerate(t):
            if e.get("ev") == ev and pred(e):
                return i, e
        return None, None

    def chk(t):
        return find(t, "Check")[1]

    def key_changed(t):
        e = chk(t)
        if e:
            e["gkold"][-1]["r"][-1] = False
            return t

    def gk_differs(t):
        e = chk(t)
        if e and len(e["gkold"]) > 1:
            e["gkeq"][-1] = False
            return t

    def ps_differs(t):
        e = chk(t)
        if e and len(e["gkold"]) > 1:
            e["pseq"][0] = False
            return t

    def own_mismatch(t):
        e = chk(t)
        if e:
            e["own"][-1]["r"][-1] = False
            return t

    def subset_fails(t):
        e = chk(t)
        if e and e["subs"]:
            e["subs"][-1]["sig"] = False
            return t

    def recover_fails(t):
        e = chk(t)
        if e and e["subs"]:
            e["subs"][0]["rec"] = False
            return t

    def below_signs(t):
        e = chk(t)
        if e and e["below"]:
            for b in e["below"]:
                b["sig"] = True          # rejected when the witness polynomial has full degree for one of them
            return t

    def mixture_signs(t):
        e = chk(t)
        if e and e["mixed"]:
            for b in e["mixed"]:
                b["sig"] = True
            return t

    def old_shares_revoked(t):
        e = chk(t)
        if e and e["olds"]:
            e["olds"][0]["sig"] = False
            return t

    def pskeys_leaver(t):
        # the table of a new member also lists a participant that leaves
        e = chk(t)
        if e:
            new = {x[0] for x in t[0]["newidx"]}
            gone = [i for i in t[0]["part"] if i not in new]
            if gone:
                e["pskeys"][0]["k"][0] = sorted(e["pskeys"][0]["k"][0] + [gone[0]])
                return t

    def pskeys_compact(t):
        # the table is keyed by the new cluster's share indices instead of the PeerMap's
        e = chk(t)
        if e and any(x[0] != x[1] for x in t[0]["newidx"]):
            e["pskeys"][0]["k"][0] = sorted(x[1] for x in t[0]["newidx"])
            return t

    def result_missing(t):
        e = chk(t)
        if e:
            new = {x[0] for x in t[0]["newidx"]}
            for x in e["nres"]:
                if x[0] in new:
                    x[1] -= 1
                    return t

    def leaver_got_shares(t):
        e = chk(t)
        if e:
            new = {x[0] for x in t[0]["newidx"]}
            for x in e["nres"]:
                if x[0] not in new:
                    x[1] = t[0]["V"]
                    return t

    def wrong_newidx(t):
        # the relations were computed at other share indices than the contract's
        if chk(t) and len(t[0]["newidx"]) > 1:
            a, b = t[0]["newidx"][0], t[0]["newidx"][1]
            a[1], b[1] = b[1], a[1]
            return t

    def wrong_nt(t):
        if chk(t):
            t[0]["nt"] += 1
            return t

    def silent_response(t):
        _, e = find(t, "D", lambda e: e["k"] == 1 and any(m[0] == 2 for m in e["sent"]))
        if e:
            e["sent"] = [m for m in e["sent"] if m[0] != 2]
            return t

    def leaver_responds(t):
        # a node that leaves answers the deals
        new = {x[0] for x in t[0]["newidx"]}
        _, e = find(t, "D", lambda e: e["k"] == 1 and e["j"] not in new and not e["sent"])
        if e:
            e["sent"] = [[2, e["j"], x, e["v"]] for x in t[0]["part"] if x != e["j"]]
            return t

    def newcomer_deals(t):
        # a node without a share deals
        hold = set(t[0]["holders"])
        i, e = find(t, "Start", lambda e: e["i"] not in hold)
        _, last = find(t, "Start", lambda e: any(m[0] == 1 for m in e["sent"]))
        if e and last:
            last["sent"] = sorted(last["sent"] + [[1, e["i"], x, 0] for x in t[0]["part"] if x != e["i"]])
            return t

    def share_for_wrong_validator(t):
        _, e = find(t, "D", lambda e: any(m[0] == 4 for m in e["sent"]))
        if e:
            e["sent"] = [[m[0], m[1], m[2], m[3] + 1] if m[0] == 4 else m for m in e["sent"]]
            return t

    def returns_early(t):
        _, e = find(t, "D", lambda e: e["k"] == 4 and not e["done"] and not e["sent"])
        if e:
            e["done"] = [e["j"]]
            return t

    def redelivery_counts(t):
        seen = set()
        for e in t:
            if e.get("ev") != "D":
                continue
            key = (e["k"], e["i"], e["j"], e["v"])
            if key in seen and not e["sent"]:
                e["sent"] = [[4, e["j"], x, e["v"]] for x in t[0]["part"] if x != e["j"]]
                return t
            seen.add(key)

    def never_sent(t):
        _, e = find(t, "D")
        if e:
            e["found"] = False
            return t

    def node_failed(t):
        i, e = find(t, "D", lambda e: e["done"])
        if e:
            e["failed"], e["done"], e["errs"] = e["done"], [], ["kyber"] * len(e["done"])
            return t

    def refusal_accepted(t):
        # a refused configuration is carried out by one node
        _, e = find(t, "Start", lambda e: e["failed"])
        if e and not chk(t):
            e["failed"], e["errs"] = e["failed"][1:], e["errs"][1:]
            return t

    def refusal_class(t):
        _, e = find(t, "Start", lambda e: e["failed"])
        if e:
            e["errs"][0] = "addcount" if e["errs"][0] != "addcount" else "rmcount"
            return t

    def accepted_refused(t):
        # an acceptable configuration is refused by the last node
        if chk(t):
            idx = [i for i, e in enumerate(t) if e.get("ev") == "Start"]
            e = t[idx[-1]]
            e["failed"], e["errs"], e["sent"] = [e["i"]], ["rmall"], []
            return t[:idx[-1] + 1] + [{"ev": "End", "open": [x for x in t[0]["part"] if x != e["i"]]}]

    def subset_omitted(t):
        e = chk(t)
        if e and len(e["subs"]) > 1:
            del e["subs"][-1]
            return t

    def check_dropped(t):
        i, e = find(t, "Check")
        if e:
            del t[i]
            return t

    def delivery_dropped(t):
        i, e = find(t, "D", lambda e: e["sent"])
        if e:
            del t[i]
            return t

    def end_hides_open(t):
        i, e = find(t, "End", lambda e: e["open"])
        if e:
            e["open"] = e["open"][1:]
            return t
    return [("the group key changed", key_changed), ("group keys differ between new members", gk_differs),
            ("public share tables differ between new members", ps_differs), ("own secret share does not match its public share", own_mismatch),
            ("a NewT-subset's aggregate does not verify under the old key", subset_fails),
            ("a NewT-subset's public shares do not recover the key", recover_fails), ("NewT-1 new shares sign", below_signs),
            ("a mixture of old and new shares signs", mixture_signs), ("T old shares no longer sign", old_shares_revoked),
            ("the table lists a leaving participant", pskeys_leaver), ("the table is keyed by the compact indices", pskeys_compact),
            ("a new member returned fewer shares", result_missing), ("a leaving node returned shares", leaver_got_shares),
            ("relations computed at other share indices than the contract's", wrong_newidx), ("relations computed for another new threshold", wrong_nt),
            ("response bundle not sent when the last deal arrived", silent_response), ("a leaving node answers the deals", leaver_responds),
            ("a node without a share deals", newcomer_deals), ("share message attributed to the next validator", share_for_wrong_validator),
            ("node returned before its collection was complete", returns_early), ("a re-delivered message had an effect", redelivery_counts),
            ("delivered packet was never sent", never_sent), ("RunReshareDKG returned an error", node_failed),
            ("a refused configuration was carried out by a node", refusal_accepted), ("a refusal of another class", refusal_class),
            ("an acceptable configuration was refused", accepted_refused), ("a NewT-subset was not examined", subset_omitted),
            ("Check event dropped", check_dropped), ("a delivery event dropped", delivery_dropped),
            ("End hides a node that has not returned", end_hides_open)]


# ----------------------------------------------------------------------------------------------
def design_check_start(o, tier):
    """design check + the controls that MUST be violated: independent TLC runs in the background"""
    from concurrent.futures import ThreadPoolExecutor
    thorough = tier == "thorough"
    mcs = THOROUGH_MC if thorough else QUICK_MC
    jobs = [(cfg, None, None) for cfg in mcs] + list(CONTROLS)
    if os.environ.get("VERIF_RESHARE_NOMC"):      # mutation experiments: the design check does not depend on the tree
        jobs = []
    dirs = [vlib.scratch(o.pid, FAMILY) for _ in jobs]
    big = max(4, vlib.NCPU // 2) if thorough else 4

    def one(k):
        cfg, inv, _ = jobs[k]
        return vlib.tlc(o.pid, FAMILY, "ReshareMC", cfg, workers=big if inv is None else 1, timeout=1700, sdir=dirs[k])
    ex = ThreadPoolExecutor(max_workers=3 if thorough else 6)
    futs = [ex.submit(one, k) for k in range(len(jobs))]

    def finish():
        results = [f.result() for f in futs]
        ex.shutdown()
        for (cfg, inv, what), r in zip(jobs, results):
            if inv is None:
                vlib.require_mc_ok(r, cfg)
                o.add_mc(cfg[:-4], r)
            elif (r.violation or ("temporal" if "Temporal property Terminates was violated" in r.out else None)) != inv:
                raise vlib.Infra("Reshare design-spec control failed: '%s' not caught by %s: %s" % (what, inv, r.summary()))
            else:
                o.selftests.append({"control": "Reshare spec variant '%s' violates %s" % (what, inv), "rejected_as_required": True})
    return finish


def stage(o, tier, seed):
    """Run the Reshare family as a stage of a check."""
    t0 = time.time()
    thorough = tier == "thorough"
    design_done = design_check_start(o, tier)
    try:
        g, _ = vlib.gen_schedules(o.pid, FAMILY, "ReshareGen", "ReshareGen_thorough.cfg" if thorough else "ReshareGen.cfg",
                                  num=300 if thorough else 40, depth=600, seed=seed, limit=300 if thorough else 40)
        gen = from_tlc(g, seed)
        rnd = random_schedules(seed, 360 if thorough else 42) + corner_schedules(seed)
        ref = refusal_schedules(seed, 400 if thorough else 60) + fault_schedules(seed, 40 if thorough else 8)
        kw = dict(chunk=40 if thorough else 8, exec_timeout=1500, tv_timeout=900, dev_cfgs=DEV)
        vlib.conformance(o, FAMILY, TRACE, TCFG, PKG, gen + rnd, tag="resh_main", **kw)
        vlib.conformance(o, FAMILY, TRACE, TCFG, PKG, ref, tag="resh_refuse", **dict(kw, chunk=100))
        nk = len(o.known)
        vlib.conformance(o, FAMILY, TRACE, TCFG, PKG, probe_schedules(seed, thorough), tag="resh_probe", **kw)
        o.extra["reshare_probes_report_known_findings"] = sorted({k for k, _ in o.known[nk:]})
        if not o.violations:
            tr = []
            for tag in ("resh_main", "resh_refuse"):
                tr += vlib.split_traces(vlib.read_ndjson(os.path.join(vlib.workdir(o.pid), "trace_%s.ndjson" % tag)))
            tr.sort(key=lambda t: (t[-1].get("ev") != "Check", len(t[0]["part"]) == len(t[0]["newidx"]), t[0]["V"] < 2, len(t)))
            ms = mutators()
            nself = len(o.selftests)
            vlib.binding_selftest(o, FAMILY, TRACE, TCFG, tr, ms, candidates=10)
            if len(o.selftests) - nself < len(ms):
                raise vlib.Infra("Reshare binding self-test: some negative control found no applicable trace")
            done = [t for t in tr if t[-1].get("ev") == "Check"]
            o.extra["reshare_completed_ceremonies"] = len(done)
            o.extra["reshare_refused_or_stuck_ceremonies"] = len(tr) - len(done)
            o.extra["reshare_shapes"] = sorted({s[0].get("shape", "tlc") for s in gen + rnd + ref})
    finally:
        design_done()
    o.extra["reshare_ceremonies"] = len(gen) + len(rnd) + len(ref)
    o.notes.append(RULE)
    log("[%s] Reshare stage: %d TLC-generated + %d seeded ceremonies + %d refusal/fault cases + probes, %.0fs"
        % (o.pid, len(gen), len(rnd), len(ref), time.time() - t0))


def main(tier="quick", seed=1, pid="GRESH"):
    """Stand-alone driver (the evidence file is written by checks/grow_all.py when the family is registered)."""
    vlib.workdir(pid, fresh=True)
    o = vlib.Outcome(pid, tier, seed)
    try:
        stage(o, tier, int(seed))
    except vlib.Infra as e:
        log("INFRA: %s" % e)
        return 2
    for fid, txt in o.known:
        log("KNOWN-FINDING: property=%s %s: %s" % (pid, fid, txt))
    for path, txt in o.violations:
        log("VIOLATION property=%s replay=%s" % (pid, path))
        log("  " + txt)
    if o.violations:
        return 1
    log("[%s] OK tier=%s seed=%s: %d MC states, %d traces validated, %d self-test controls, %.0fs"
        % (pid, tier, seed, o.states, o.traces, len(o.selftests), time.time() - o.t0))
    return 0


def replay(path):
    rp = json.load(open(path))
    o = vlib.Outcome(rp.get("property", "GRESH"), "quick", 0)
    vlib.conformance(o, FAMILY, rp["trace_module"], rp["trace_cfg"], rp["pkg"], [rp["schedule"]], tag="replay", dev_cfgs=DEV)
    for p, t in o.violations:
        log("replay: " + t)
    return 1 if o.violations else 0


if __name__ == "__main__":
    import sys
    sys.exit(main(*(sys.argv[1:3] or ["quick", 1])))
