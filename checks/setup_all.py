"""./check --setup : offline build of everything the checks need (syntax-check specs, warm the Go build cache)."""
import os, subprocess, sys, glob
import vlib


def main():
    rc = 0
    hdir = vlib.prepare_harness()
    env = vlib.go_env()
    p = subprocess.run(["go", "test", "-tags", "verif", "-count=1", "-vet=off", "-run", "^$", "./..."], cwd=hdir, env=env)
    if p.returncode != 0:
        print("setup: harness build failed")
        rc = 1
    # syntax check of every spec (SANY) in a scratch copy
    for fam in sorted(os.listdir(vlib.SPECS)):
        if fam == "Common":
            continue
        d = vlib.scratch("_setup", fam)
        for tla in sorted(glob.glob(os.path.join(d, "*.tla"))):
            q = subprocess.run(["java", "-cp", vlib.TLA_JAR, "tla2sany.SANY", os.path.basename(tla)], cwd=d,
                               stdout=subprocess.PIPE, stderr=subprocess.STDOUT, text=True)
            if q.returncode != 0 or "Semantic errors" in q.stdout or "Parse Error" in q.stdout or "Fatal errors" in q.stdout:
                print("setup: SANY failed on %s/%s\n%s" % (fam, os.path.basename(tla), q.stdout[-1500:]))
                rc = 1
    print("setup done rc=%d" % rc)
    return rc
