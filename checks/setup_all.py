"""./check --setup : offline build of everything the checks need (syntax-check specs, warm the Go build cache)."""
import os, subprocess, sys, glob
import vlib


def main():
    rc = 0
    hdir = vlib.prepare_harness()
    env = vlib.go_env()
    import json
    man = json.load(open(os.path.join(vlib.VERIF, "MANIFEST.json")))
    registered = {c["property_id"].lower() for c in man.get("checks", [])}
    families = {c.get("engine") for c in man.get("checks", [])}
    pkgs = ["./drv/..."]
    for d in sorted(os.listdir(hdir)):
        if os.path.isdir(os.path.join(hdir, d)) and d.startswith("c") and d[1:].isdigit():
            pkgs.append("./" + d)
    for pkg in pkgs:
        p = subprocess.run(["go", "test", "-tags", "verif", "-count=1", "-vet=off", "-run", "^$", pkg], cwd=hdir, env=env,
                           stdout=subprocess.PIPE, stderr=subprocess.STDOUT, text=True)
        if p.returncode != 0:
            needed = pkg == "./drv/..." or pkg[2:] in registered or (pkg == "./c02" and registered & {"c02", "c03", "c04"})
            print("setup: %s does not build%s\n%s" % (pkg, "" if needed else " (not registered yet, ignored)", p.stdout[-1500:]))
            if needed:
                rc = 1
    # syntax check of every spec (SANY) in a scratch copy
    for fam in sorted(os.listdir(vlib.SPECS)):
        if fam == "Common":
            continue
        d = vlib.scratch("_setup", fam)
        for tla in sorted(glob.glob(os.path.join(d, "*.tla"))):
            q = subprocess.run(["java", "-DTLA-Library=/opt/veriftools/tlapm/lib/tlapm/stdlib", "-cp", vlib.TLA_JAR,
                                "tla2sany.SANY", os.path.basename(tla)], cwd=d,
                               stdout=subprocess.PIPE, stderr=subprocess.STDOUT, text=True)
            if q.returncode != 0 or "Semantic errors" in q.stdout or "Parse Error" in q.stdout or "Fatal errors" in q.stdout:
                needed = fam in families
                print("setup: SANY failed on %s/%s%s\n%s" % (fam, os.path.basename(tla), "" if needed else " (family not registered yet, ignored)", q.stdout[-1500:]))
                if needed:
                    rc = 1
    print("setup done rc=%d" % rc)
    return rc
