"""GROWTH family "ValidatorAPI" - the gate between an untrusted validator client and the duty pipeline
(core/validatorapi/validatorapi.go): per endpoint, which DV key a submitted signed object is attributed to, which partial
signature is demanded of it (this node's share, the duty's signing domain and epoch, the object's own root), under which
duty it is forwarded to the subscribers (exactly once per duty, all-or-nothing per request), what is swallowed
(registrations), what the blocking queries answer, and the root-key <-> pubshare translation of the query endpoints.

`stage(o, tier, seed)` runs the family on an Outcome (./check --grow vapi); `main(tier, seed)` is a stand-alone driver,
`replay(path)` re-runs a replay file."""
import copy, json, os, time
import vlib
from vlib import log

FAMILY = "ValidatorAPI"
PKG = "vapi"
TRACE = "ValidatorAPITrace"
TCFG = "ValidatorAPITrace.cfg"

RULE = ("ValidatorAPI family: cases = endpoint (attestations, aggregates, sync messages, contributions, beacon / sync committee "
        "selections, voluntary exit, full / blinded proposal, Proposal with its randao reveal, registrations; Validators, "
        "proposer / attester / sync duties, AttestationData, AggregateAttestation) x request (0..2, thorough 0..3 elements: a right "
        "element or ONE deviation of it -- signer: another share / the other validator's share / group key / unrelated key / zero "
        "signature; domain; epoch; signed over another slot / content / epoch / validator; validator foreign to the cluster or "
        "unknown to the node; aggregation bits, committee, validator index, target epoch; inner selection proofs; proposer "
        "definitions and consensus proposal) x scripted failures (n-th subscriber invocation, n-th aggsigdb query), enumerated by "
        "TLC (ValidatorAPIGen, states = cases); share index, slots per epoch, epoch offset, fork spacing, builder flag and data "
        "versions re-drawn from the seed; plus seeded random larger batches.  Executed on the real validatorapi.Component "
        "(NewComponent, verification on) with real eth2 objects and real tbls partial signatures (4 validators, 3-of-4 shares) over "
        "a scripted beacon client and recording stubs; every trace validated by ValidatorAPITrace.tla")
ASSUMPTIONS = [
    "known finding GROW-vapi-att-slot20-ssz (core.VersionedAttestation.UnmarshalSSZ: a pre-electra attestation of slot 20 cannot be "
    "cloned) has one dedicated schedule and a deviation cfg; the other schedules are steered away from slot 20",
    "the scripted beacon node has a fork every `fork` epochs (1 or 10^6): with 1 the epoch used for the signing domain is observable",
    "scheduler / dutydb / aggsigdb are stubs answering by their arguments (definitions by duty slot, pubkey by (slot, committee, "
    "validator index), consensus proposal by slot); the HTTP router in front of the component is not part of the family",
    "as coded on the pinned tree: validator registrations are swallowed whatever the builder flag says; every submit path but "
    "attestations / proposals attributes by the beacon node's active-validator index, not by a pubshare map",
]

PRE = ["phase0", "altair", "bellatrix", "capella", "deneb"]
ALLV = PRE + ["electra", "fulu"]
PROPV = ["bellatrix", "capella", "deneb", "electra", "fulu"]
DOM = {"att": "DOMAIN_BEACON_ATTESTER", "agg": "DOMAIN_AGGREGATE_AND_PROOF", "msg": "DOMAIN_SYNC_COMMITTEE",
       "contrib": "DOMAIN_CONTRIBUTION_AND_PROOF", "exit": "DOMAIN_VOLUNTARY_EXIT", "bcsel": "DOMAIN_SELECTION_PROOF",
       "scsel": "DOMAIN_SYNC_COMMITTEE_SELECTION_PROOF", "prop": "DOMAIN_BEACON_PROPOSER", "bprop": "DOMAIN_BEACON_PROPOSER",
       "randao": "DOMAIN_RANDAO", "reg": "-"}
INNER = {"agg": "DOMAIN_SELECTION_PROOF", "contrib": "DOMAIN_SYNC_COMMITTEE_SELECTION_PROOF"}
GEN_SPE = 4          # SPE of ValidatorAPIGen.cfg


# ----------------------------------------------------------------------------------------------------------------------
# concretisation: a relabelling of an enumerated case (share indices rotated, slots / epochs moved into another slots-per-
# epoch grid, data versions chosen) plus environment parameters the enumeration fixes (fork spacing, builder flag)
# ----------------------------------------------------------------------------------------------------------------------
def bodies(c):
    for it in c["items"]:
        yield it["body"]
        yield it["sig"]["of"]


def hits_slot20(c):
    """the known finding GROW-vapi-att-slot20-ssz: a pre-electra attestation of slot 20 (mod 2^32) cannot be cloned"""
    return c["ep"] == "att" and any(it["body"]["ver"] == "pre" and it["body"]["slot"] % (1 << 32) == 20 for it in c["items"])


def concretise(r, case):
    """(the known finding has its own schedule: the relabelling is drawn again when it would move an attestation to slot 20)"""
    while True:
        c = concretise1(r, case)
        if not hits_slot20(c[0]):
            return c


def concretise1(r, case):
    c = copy.deepcopy(case)
    rot = r.randrange(4)
    spe = r.choice([4, 8, 32])
    e0 = r.choice([0, 0, r.randint(1, 40)])
    off = r.randint(0, spe - GEN_SPE)
    c["fork"] = r.choice([1, 1, 1, 1, 1000000])
    if c["ep"] != "reg":
        c["builder"] = r.random() < 0.5

    def k(x):
        return ((x - 1 + rot) % 4) + 1 if x else 0

    def slot(s):
        return ((s // GEN_SPE) + e0) * spe + (s % GEN_SPE) + off if s else 0

    def signer(s):
        if s["t"] == "share":
            s["k"] = k(s["k"])

    c["me"], c["spe"] = k(c["me"]), spe
    for it in c["items"]:
        signer(it["sig"]["signer"])
        it["sig"]["epoch"] += e0
        cver = r.choice(PRE if c["ep"] == "att" else ALLV)
        for b in (it["body"], it["sig"]["of"]):
            b["slot"], b["epoch"] = slot(b["slot"]), b["epoch"] + e0
            b["cver"] = cver
            p = b["proof"]
            signer(p["signer"])
            if p["dom"] != "-":
                p["slot"], p["epoch"] = slot(p["slot"]), p["epoch"] + e0
    for d in c["defs"] + c["pdefs"]:
        d["slot"] = slot(d["slot"])
    c["cons"]["slot"] = slot(c["cons"]["slot"])
    c["req"]["slot"], c["req"]["epoch"] = slot(c["req"]["slot"]), c["req"]["epoch"] + e0
    for p in c["req"]["pubkeys"]:
        signer(p)
    if c["ep"] in ("prop", "bprop", "randao"):
        v1, v2 = r.sample(PROPV, 2)
        for b in list(bodies(c)) + [c["cons"]]:
            b["cver"] = v1 if b["ver"] == "v1" else v2
    return [c]


# ----------------------------------------------------------------------------------------------------------------------
# seeded random cases: larger and more mixed batches than the enumeration, several subscribers, any failure script
# ----------------------------------------------------------------------------------------------------------------------
ZERO = {"t": "zero", "v": 0, "k": 0}
NOPROOF = {"signer": ZERO, "dom": "-", "epoch": 0, "slot": 0, "sub": 0}


def mk_body(ep, v, s, spe, sub=0, content=1):
    b = {"val": v, "slot": s, "epoch": s // spe, "comm": v, "sub": sub, "content": content, "ver": "pre" if ep == "att" else "v1",
         "blinded": ep == "bprop", "bits": [v], "vi": 0, "proof": copy.deepcopy(NOPROOF)}
    if ep in INNER:
        b["proof"] = {"signer": {"t": "root", "v": v, "k": 0}, "dom": INNER[ep], "epoch": s // spe, "slot": s, "sub": sub}
    return b


def mk_sign(ep, b, v, me, spe):
    of = copy.deepcopy(b)
    if ep == "randao":
        of["epoch"] = b["slot"] // spe
    return {"body": b, "sig": {"signer": {"t": "share", "v": v, "k": me}, "dom": DOM[ep],
                               "epoch": b["epoch"] if ep in ("att", "exit") else b["slot"] // spe, "of": of}}


def deviate(r, ep, it, me):
    d = r.choice(["othershare", "otherval", "rootkey", "unrelated", "zero", "dom", "epoch", "ofslot", "ofcontent", "ofepoch", "ofval",
                  "proof", "unknown", "foreign"])
    s = it["sig"]
    if d == "othershare":
        s["signer"]["k"] = r.choice([x for x in (1, 2, 3, 4) if x != me])
    elif d == "otherval":
        s["signer"]["v"] = r.choice([x for x in (1, 2, 3) if x != s["signer"]["v"]])
    elif d == "rootkey":
        s["signer"] = {"t": "root", "v": s["signer"]["v"], "k": 0}
    elif d == "unrelated":
        s["signer"] = {"t": "unrelated", "v": 0, "k": 0}
    elif d == "zero":
        s["signer"] = dict(ZERO)
    elif d == "dom":
        s["dom"] = r.choice([x for x in sorted(set(DOM.values())) if x not in (s["dom"], "-")])
    elif d == "epoch":
        s["epoch"] += r.choice([1, 2, -1]) if s["epoch"] > 0 else 1
    elif d == "ofslot":
        s["of"]["slot"] += 1
    elif d == "ofcontent":
        s["of"]["content"] += 1
    elif d == "ofepoch":
        s["of"]["epoch"] += 1
        s["epoch"] += 1
    elif d == "ofval":
        s["of"]["val"] = 3 - s["of"]["val"] if s["of"]["val"] in (1, 2) else 1
    elif d == "proof" and ep in INNER:
        p = it["body"]["proof"]
        x = r.choice(["share", "zero", "dom", "epoch", "slot", "other"])
        if x == "share":
            p["signer"] = {"t": "share", "v": p["signer"]["v"], "k": me}
        elif x == "zero":
            p["signer"] = dict(ZERO)
        elif x == "dom":
            p["dom"] = "DOMAIN_RANDAO"
        elif x == "epoch":
            p["epoch"] += 1
        elif x == "slot":
            p["slot"] += 1
        else:
            p["signer"]["v"] = 3 - p["signer"]["v"] if p["signer"]["v"] in (1, 2) else 1
        s["of"]["proof"] = copy.deepcopy(p)
    elif d in ("unknown", "foreign") and ep != "att":
        v = 4 if d == "unknown" else 3
        it["body"]["val"] = s["of"]["val"] = s["signer"]["v"] = v
        if ep in INNER:
            it["body"]["proof"]["signer"]["v"] = s["of"]["proof"]["signer"]["v"] = v
    return it


def random_cases(seed, n):
    r = vlib.rng(seed, "vapi-rnd")
    out = []
    for _ in range(n):
        ep = r.choice(["att", "agg", "msg", "contrib", "bcsel", "scsel"] * 3 + ["exit", "reg"])
        me, spe = r.randint(1, 4), r.choice([4, 8, 32])
        e1, e2 = r.sample(range(1, 30), 2)
        slots = [e1 * spe + r.randrange(spe - 1), e1 * spe + r.randrange(spe - 1), e2 * spe + r.randrange(spe - 1)]
        mode = r.choice(["sep", "same"])
        defs = [{"val": v, "slot": s, "comm": 1 if mode == "same" else v, "pos": v} for s in sorted(set(slots)) for v in (1, 2)]
        size = 1 if ep == "exit" else r.choice([2, 3, 3, 4, 5, 6])
        pbad = r.choice([0, 0, 0.15, 0.4])
        items = []
        for _ in range(size):
            v, s = r.choice([1, 1, 2, 2, 2]), r.choice(slots)
            b = mk_body(ep, v, s, spe, sub=r.choice([0, 0, 1, 2]) if ep in ("contrib", "scsel") else 0, content=r.choice([1, 1, 2]))
            if ep == "att":
                b["comm"] = 1 if mode == "same" else v
                if r.random() < 0.5:
                    b.update({"ver": r.choice(["electra", "fulu"]), "vi": v, "bits": []})
                if r.random() < 0.3:
                    b["epoch"] -= 1                      # target epoch of a slot early in the epoch
            it = mk_sign(ep, b, v, me, spe)
            if r.random() < pbad:
                it = deviate(r, ep, it, me)
            cver = r.choice(PRE if ep == "att" else ALLV)
            it["body"]["cver"] = it["sig"]["of"]["cver"] = cver
            items.append(it)
        if items and r.random() < 0.3:                    # an exact duplicate / a re-submission
            items.insert(r.randrange(len(items) + 1), copy.deepcopy(r.choice(items)))
        nsubs = r.choice([1, 2, 2, 3])
        c = {"ev": "Call", "me": me, "spe": spe, "fork": r.choice([1, 1, 1, 1000000]), "builder": r.random() < 0.5, "nsubs": nsubs,
             "subfail": r.choice([0, 0, 0, r.randint(1, 3 * nsubs)]), "afail": r.choice([0, 0, 0, r.randint(1, 4)]),
             "awrong": r.choice([0, 0, 0, r.randint(1, 4)]), "ep": ep, "items": items, "defs": defs, "pdefs": [], "pderr": False,
             "cons": {"slot": 0, "val": 0, "content": 0, "ver": "v1", "blinded": False}, "conserr": False, "cached": [],
             "req": {"pubkeys": [], "indices": [], "epoch": 0, "slot": 0, "comm": 0}, "dvals": [], "qerr": False}
        if not hits_slot20(c):
            out.append([c])
    return out


def slot20_case():
    """the schedule of the known finding: one rightly signed pre-electra attestation of validator 1 at slot 20"""
    me, spe = 2, 8
    it = mk_sign("att", mk_body("att", 1, 20, spe), 1, me, spe)
    it["body"]["cver"] = it["sig"]["of"]["cver"] = "deneb"
    return [{"ev": "Call", "me": me, "spe": spe, "fork": 1, "builder": False, "nsubs": 1, "subfail": 0, "afail": 0, "awrong": 0, "ep": "att",
             "items": [it], "defs": [{"val": 1, "slot": 20, "comm": 1, "pos": 1}], "pdefs": [], "pderr": False,
             "cons": {"slot": 0, "val": 0, "content": 0, "ver": "v1", "blinded": False}, "conserr": False, "cached": [],
             "req": {"pubkeys": [], "indices": [], "epoch": 0, "slot": 0, "comm": 0}, "dvals": [], "qerr": False}]


# ----------------------------------------------------------------------------------------------------------------------
# binding self-tests: corrupt one recorded field / drop one event of an accepted trace -> must be rejected
# ----------------------------------------------------------------------------------------------------------------------
def mutators():
    def subs(t):
        return [i for i, e in enumerate(t) if e.get("ev") == "Sub"]

    def ret(t):
        return t[-2] if len(t) >= 2 and t[-1].get("ev") == "End" and t[-2].get("ev") == "Ret" else None

    def share_off_by_one(t):
        for i in subs(t):
            t[i]["set"][0]["share"] += 1
            return t
        return None

    def forward_dropped(t):
        for i in subs(t):
            if ret(t) and ret(t)["err"] == "":
                del t[i]
                return t
        return None

    def forwarded_twice(t):
        s = subs(t)
        if s and t[0]["nsubs"] == 1:
            t.insert(s[0], json.loads(json.dumps(t[s[0]])))
            return t
        return None

    def other_duty_slot(t):
        for i in subs(t):
            t[i]["duty"]["slot"] += 1
            return t
        return None

    def other_duty_type(t):
        for i in subs(t):
            t[i]["duty"]["type"] = "attester" if t[i]["duty"]["type"] != "attester" else "aggregator"
            return t
        return None

    def other_key(t):
        for i in subs(t):
            e = t[i]["set"][0]
            if len(t[i]["set"]) == 1 and e["pk"] in (1, 2):
                e["pk"] = 3 - e["pk"]
                return t
        return None

    def other_object(t):
        for i in subs(t):
            e = t[i]["set"][0]
            others = [j + 1 for j in range(len(t[0]["items"])) if j + 1 not in e["objs"]]
            if others:
                e["objs"] = others[:1]
                return t
        return None

    def object_not_submitted(t):
        for i in subs(t):
            t[i]["set"][0]["objs"] = []
            return t
        return None

    def forwarded_although_rejected(t):
        r_ = ret(t)
        if r_ and r_["err"] in ("signature not verified", "unknown public key", "validator not found", "no signature found") and not subs(t) \
                and t[0]["ep"] in ("att", "agg", "msg", "contrib", "exit"):
            b = t[0]["items"][0]["body"]
            typ = {"att": "attester", "agg": "aggregator", "msg": "sync_message", "contrib": "sync_contribution", "exit": "exit"}[t[0]["ep"]]
            t.insert(len(t) - 2, {"ev": "Sub", "sub": 1, "duty": {"type": typ, "slot": b["slot"]},
                                  "set": [{"pk": b["val"] if b["val"] < 4 else 0, "share": t[0]["me"], "objs": [1], "repoch": 0}]})
            return t
        return None

    def error_swallowed(t):
        r_ = ret(t)
        if r_ and r_["err"] != "":
            r_["err"], r_["stub"] = "", False
            return t
        return None

    def spurious_error(t):
        r_ = ret(t)
        if r_ and r_["err"] == "" and t[0]["ep"] not in ("bcsel", "scsel"):
            r_["err"], r_["resp"] = "signature not verified", []
            return t
        return None

    def other_error(t):
        r_ = ret(t)
        if r_ and r_["err"] == "signature not verified":
            r_["err"] = "unknown public key"
            return t
        return None

    def registration_forwarded(t):
        if t[0]["ep"] == "reg" and t[0]["items"] and ret(t):
            t.insert(len(t) - 2, {"ev": "Sub", "sub": 1, "duty": {"type": "builder_registration", "slot": t[0]["items"][0]["body"]["slot"]},
                                  "set": [{"pk": 1, "share": t[0]["me"], "objs": [1], "repoch": 0}]})
            return t
        return None

    def root_key_in_response(t):
        r_ = ret(t)
        if r_ and t[0]["ep"] == "validators" and r_["err"] == "":
            for e in r_["resp"]:
                if e["key"]["t"] == "share":
                    e["key"] = {"t": "root", "v": e["key"]["v"], "k": 0}
                    return t
        if r_ and t[0]["ep"].startswith("duties") and r_["err"] == "":
            for j, e in enumerate(r_["resp"]):
                if e["t"] == "share":
                    r_["resp"][j] = {"t": "root", "v": e["v"], "k": 0}
                    return t
        return None

    def other_share_in_response(t):
        r_ = ret(t)
        if r_ and t[0]["ep"] == "validators" and r_["err"] == "":
            for e in r_["resp"]:
                if e["key"]["t"] == "share":
                    e["key"]["k"] = e["key"]["k"] % 4 + 1
                    return t
        return None

    def pubshare_sent_upstream(t):
        for e in t:
            if e.get("ev") == "BN" and e["pubkeys"]:
                e["pubkeys"][0] = {"t": "share", "v": e["pubkeys"][0]["v"], "k": t[0]["me"]}
                return t
        return None

    def upstream_call_dropped(t):
        for i, e in enumerate(t):
            if e.get("ev") == "BN":
                del t[i]
                return t
        return None

    def await_dropped(t):
        for i, e in enumerate(t):
            if e.get("ev") == "Await":
                del t[i]
                return t
        return None

    def selection_missing(t):
        r_ = ret(t)
        if r_ and t[0]["ep"] in ("bcsel", "scsel") and r_["err"] == "" and r_["resp"]:
            r_["resp"] = r_["resp"][:-1]
            return t
        return None

    def randao_not_forwarded(t):
        r_ = ret(t)
        if r_ and t[0]["ep"] == "randao" and r_["err"] == "" and subs(t):
            for i in reversed(subs(t)):
                del t[i]
            return t
        return None

    def randao_other_epoch(t):
        for i in subs(t):
            if t[0]["ep"] == "randao":
                t[i]["set"][0]["repoch"] += 1
                return t
        return None

    def values_not_set(t):
        r_ = ret(t)
        if r_ and t[0]["ep"] == "randao" and r_["err"] == "":
            r_["resp"][0]["cv"] = -1
            return t
        return None

    def no_return(t):
        if ret(t):
            del t[-2]
            return t
        return None

    return [("forwarded with another share index", share_off_by_one), ("one subscriber invocation dropped", forward_dropped),
            ("a set forwarded twice to the subscriber", forwarded_twice), ("forwarded under another slot", other_duty_slot),
            ("forwarded under another duty type", other_duty_type), ("forwarded under the other validator's key", other_key),
            ("another element of the request forwarded instead", other_object), ("forwarded object is none of the submitted ones", object_not_submitted),
            ("a rejected object forwarded nevertheless", forwarded_although_rejected), ("error of a rejected request swallowed", error_swallowed),
            ("accepted request answered with an error", spurious_error), ("another error text", other_error),
            ("a registration forwarded", registration_forwarded), ("root key left in a query response", root_key_in_response),
            ("another node's pubshare in a query response", other_share_in_response), ("pubshare sent upstream", pubshare_sent_upstream),
            ("upstream query dropped", upstream_call_dropped), ("aggsigdb query dropped", await_dropped),
            ("one aggregated selection missing in the response", selection_missing), ("Proposal answered without forwarding the randao reveal", randao_not_forwarded),
            ("randao forwarded for another epoch", randao_other_epoch), ("consensus value not set in the Proposal response", values_not_set),
            ("Ret event dropped", no_return)]


# ----------------------------------------------------------------------------------------------------------------------
CONTROLS = (("ValidatorAPIMC_skipverify.cfg", "Attributed", "sync committee messages forwarded without verifying the partial signature"),
            ("ValidatorAPIMC_shareidx.cfg", "Attributed", "ParSignedData carries share index + 1"),
            ("ValidatorAPIMC_partial.cfg", "NoForwardOnReject", "a rejected element is skipped and the rest of the batch forwarded"),
            ("ValidatorAPIMC_exitslot.cfg", "Attributed", "exit duty slot = the epoch number instead of its first slot"),
            ("ValidatorAPIMC_identity.cfg", "Translated", "query responses keep the root public keys"))
WORKERS = int(os.environ.get("VERIF_TLC_WORKERS", "0")) or None


def design_check(o, tier):
    """Design check, the controls that MUST be violated, liveness, and the enumeration of the cases -- independent TLC runs
    side by side (vlib.scratch is not thread-safe: the scratch dirs are made first)."""
    from concurrent.futures import ThreadPoolExecutor
    thorough = tier == "thorough"
    main_cfg = "ValidatorAPIMC.cfg" if thorough else "ValidatorAPIMC_quick.cfg"
    gen_cfg = "ValidatorAPIGen_thorough.cfg" if thorough else "ValidatorAPIGen.cfg"
    oks = [("ValidatorAPIMC", main_cfg, WORKERS or 4), ("ValidatorAPIMC", "ValidatorAPIMC_fork.cfg", 2), ("ValidatorAPIMC", "ValidatorAPIMC_live.cfg", 2)]
    jobs = oks + [("ValidatorAPIMC", c, 2) for c, _, _ in CONTROLS] + [("ValidatorAPIGen", gen_cfg, 1)]
    dirs = [vlib.scratch(o.pid, FAMILY) for _ in jobs]
    with ThreadPoolExecutor(max_workers=len(jobs)) as ex:
        res = list(ex.map(lambda jd: vlib.tlc(o.pid, FAMILY, jd[0][0], jd[0][1], workers=jd[0][2], timeout=1500, sdir=jd[1]),
                          zip(jobs, dirs)))
    for (mod, cfg, _), r in zip(oks, res):
        vlib.require_mc_ok(r, cfg)
        o.add_mc("ValidatorAPI/" + cfg[:-4], r)
    for (cfg, inv, what), r in zip(CONTROLS, res[len(oks):]):
        if r.violation != inv:
            raise vlib.Infra("design-spec control failed: '%s' not caught by %s: %s" % (what, inv, r.summary()))
        o.selftests.append({"control": "ValidatorAPI spec variant '%s' violates %s" % (what, inv), "rejected_as_required": True})
    g = res[-1]
    if not g.ok:
        raise vlib.Infra("case enumeration failed: %s\n%s" % (g.summary(), g.out[-2000:]))
    cases = [json.loads(p)[0] for p in vlib.tagged_prints(g, "SCHED")]
    if not cases or len(cases) != len({json.dumps(c, sort_keys=True) for c in cases}):
        raise vlib.Infra("case enumeration: duplicate or no cases")
    return cases


def stage(o, tier, seed):
    """Run the ValidatorAPI family on the Outcome `o`."""
    t0 = time.time()
    thorough = tier == "thorough"
    cases = design_check(o, tier)
    r = vlib.rng(seed, "vapi-conc")
    enum = [concretise(r, c) for c in cases]
    if thorough:
        enum += [concretise(r, c) for c in cases if c["ep"] not in ("validators",)]
    rnd = random_cases(seed, 5000 if thorough else 500)
    o.extra["vapi_cases_enumerated_by_tlc"] = len(cases)
    sch = enum + rnd + [slot20_case()]
    vlib.conformance(o, FAMILY, TRACE, TCFG, PKG, sch, tag="vapi", chunk=600, exec_timeout=900, tv_timeout=900,
                     dev_cfgs=[("GROW-vapi-att-slot20-ssz", "ValidatorAPITrace_slot20.cfg")])
    tr = vlib.split_traces(vlib.read_ndjson(os.path.join(vlib.workdir(o.pid), "trace_vapi.ndjson")))
    if not o.violations:
        ms = mutators()
        nself = len(o.selftests)
        vlib.binding_selftest(o, FAMILY, TRACE, TCFG, tr, ms)
        if len(o.selftests) - nself < len(ms):
            raise vlib.Infra("ValidatorAPI binding self-test: some negative control found no applicable trace")
    rets = [t[-2] for t in tr if len(t) >= 2 and t[-2].get("ev") == "Ret"]
    o.extra["vapi_calls"] = len(tr)
    o.extra["vapi_calls_rejected"] = sum(1 for e in rets if e["err"] != "")
    o.extra["vapi_subscriber_invocations"] = sum(1 for t in tr for e in t if e.get("ev") == "Sub")
    o.extra["vapi_error_texts"] = len({e["err"] for e in rets})
    log("[%s] ValidatorAPI stage: %d cases by TLC + %d random -> %d calls (%d rejected, %d distinct error texts), %d subscriber "
        "invocations, %.0fs" % (o.pid, len(cases), len(rnd), len(tr), o.extra["vapi_calls_rejected"], o.extra["vapi_error_texts"],
                                o.extra["vapi_subscriber_invocations"], time.time() - t0))


def main(tier="quick", seed=1, pid="GVAPI"):
    """Stand-alone driver (the evidence file is written by checks/grow_all.py when the family is registered)."""
    vlib.workdir(pid, fresh=True)
    o = vlib.Outcome(pid, tier, seed)
    try:
        stage(o, tier, int(seed))
    except vlib.Infra as e:
        log("INFRA: %s" % e)
        return 2
    for fid, txt in o.known:
        log("KNOWN-FINDING: property=%s %s: %s" % (pid, fid, txt))
    for path, txt in o.violations:
        log("VIOLATION property=%s replay=%s" % (pid, path))
        log("  " + txt)
    if o.violations:
        return 1
    log("[%s] OK tier=%s seed=%s: %d MC states, %d traces validated, %d self-test controls, %.0fs"
        % (pid, tier, seed, o.states, o.traces, len(o.selftests), time.time() - o.t0))
    return 0


def replay(path):
    rp = json.load(open(path))
    o = vlib.Outcome(rp.get("property", "GVAPI"), "quick", 0)
    vlib.conformance(o, FAMILY, rp["trace_module"], rp["trace_cfg"], rp["pkg"], [rp["schedule"]], tag="replay")
    for p, t in o.violations:
        log("replay: " + t)
    return 1 if o.violations else 0


if __name__ == "__main__":
    import sys
    sys.exit(main(*(sys.argv[1:3] or ["quick", 1])))
