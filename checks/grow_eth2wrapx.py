"""GROWTH family "Eth2Wrap" - the parts of app/eth2wrap that specs/DutiesCache and specs/MultiClient do not cover:
  S  synthproposer.go  synthWrapper (ProposerDuties / ProposerDutiesCache with synthetic duties, Proposal / SubmitProposal /
                       SubmitBlindedProposal / SubmitProposalPreparations) and its synthProposerCache
  L  lazy.go           the client that connects on first use (getOrCreateClient, setClient, SetValidatorCache / SetDutiesCache,
                       Address / Name / IsActive / IsSynced / ClientForAddress before and after the connect)
  V  cache.go          ValidatorCache (GetByHead, GetBySlot, Trim)

Not a registered check: `stage(o, tier, seed)` runs the family as a stage (the Outcome `o` collects coverage and violations);
`main(tier, seed)` is a stand-alone driver, `replay(path)` re-runs a replay file.

The lazy client can only be built with a scripted connect function through the unexported newLazy: the executor uses
eth2wrap.NewLazyVerif from /verif/pending_hooks/app/eth2wrap/verif_export.go (build tag verif).  Until that file is merged into
the tree it is laid over the tree with `go test -overlay` (nothing is written to the repository)."""
import json, os, re, time
import vlib
from vlib import log

FAMILY = "Eth2Wrap"
PKG = "eth2wrapx"
TRACE = "Eth2WrapTrace"
TCFG = "Eth2WrapTrace.cfg"
HOOK = os.path.join(vlib.VERIF, "pending_hooks", "app", "eth2wrap", "verif_export.go")
SG = "SYNTHETIC BLOCK: DO NOT SUBMIT"
VERSIONS = ["phase0", "altair", "bellatrix", "capella", "deneb", "electra", "fulu"]
STATUSES = ["pending_initialized", "pending_queued", "active_ongoing", "active_exiting", "active_slashed", "exited_unslashed",
            "exited_slashed", "withdrawal_possible", "withdrawal_done"]

# the deviations of the pinned tree from the contract: finding id, switch of the spec, what it is
FINDINGS = [
    ("GROW-ETH2WRAP-synth-real-clash", "DevRealClash",
     "synthProposerCache.Duties puts a synthetic duty into a slot that has a real duty of another validator; Proposal for that slot is then "
     "answered with a synthetic block (the real proposal is lost)"),
    ("GROW-ETH2WRAP-synth-order", "DevOrder",
     "the winner among validators that collide on a synthetic slot depends on Go's map iteration order (ActiveValidators.Indices() feeds "
     "the shuffle): nodes of a cluster disagree about the synthetic proposer"),
    ("GROW-ETH2WRAP-synth-aliased", "DevAliased",
     "synthProposerCache.Duties hands out its cached duties by reference: core/validatorapi.ProposerDuties overwrites the public keys in the cache"),
    ("GROW-ETH2WRAP-synth-lookup", "DevLookup",
     "SyntheticVIdx looks the epoch up a second time after Duties() returned; the entry can be gone (overlapping fetches leave the epoch twice "
     "in the fifo, the re-fetched entry evicts itself): Proposal for a synthetic slot is forwarded to the beacon node"),
    ("GROW-ETH2WRAP-lazy-dutiescache", "DevDutiesCacheLost",
     "lazy.setClient hands the remembered validator cache to the new client but not the duties caches: SetDutiesCache before the connect is lost"),
]
DEV_CFG = {fid: "Eth2WrapTrace_dev_%s.cfg" % sw[3:] for fid, sw, _ in FINDINGS}

RULE = ("Eth2Wrap family: schedules = environment moves per component -- S: calls of ProposerDuties / ProposerDutiesCache / Proposal / "
        "SubmitProposal / SubmitBlindedProposal (7 block versions, synthetic / real / near-miss graffiti, blocks obtained from Proposal) / "
        "SubmitProposalPreparations on up to 3 wrapper instances, every request of the wrapper to the wrapped client gated and answered by the "
        "schedule (validator sets with colliding indices, real duties, missing blocks, errors), callers that overwrite the duties they got, "
        "overlapping fetches, > 10 epochs; L: calls through getOrCreateClient and of the synchronous methods, the gated connect function "
        "answering ok / error / error with a client, cancellations, ticks of the 1 ms ticker; V: GetByHead / GetBySlot / Trim, singly and "
        "in bursts, the gated Validators endpoint answering validator sets of all statuses / nil map / nil validator / error; generated (a) by "
        "TLC simulation of Eth2WrapGen (history variable) and (b) by seeded random generators and directed probes; executed on the real "
        "eth2wrap.WithSyntheticDuties / newLazy / NewValidatorCache (S, L inside testing/synctest); every trace validated by Eth2WrapTrace.tla")
ASSUMPTIONS = [
    "the wrapped client is testutil/beaconmock.Mock with the endpoints the wrappers use replaced by gates; it answers every request with "
    "fresh objects",
    "S, L: testing/synctest quiescence stands in for 'the goroutine has run as far as it can'; V: the ValidatorCache holds its RWMutex while "
    "it asks the beacon node, so real goroutines are used and the trace spec infers the order in which waiting calls got the lock",
    "the shuffle of the synthetic duties is treated as an unknown function of (epoch, set of active validators): the first observation "
    "fixes which of two colliding validators wins, later observations (other nodes, other calls, other real duties) must be consistent with "
    "one order; the concrete eth2 shuffle is not re-computed",
    "SetValidatorCache / SetDutiesCache are not called concurrently with each other (app/app.go calls each once)",
    "the lazy client is built through the hook eth2wrap.NewLazyVerif (= newLazy); eth2http.New itself (the production connect function) "
    "is not executed",
    "maxCachedEpochs is 10 in the trace spec; the design check explores 1 and 2",
]


# ----------------------------------------------------------------------------------------------------------------------
# executor environment: the hook is laid over the tree unless the tree has it
# ----------------------------------------------------------------------------------------------------------------------
def exec_env(pid):
    d = os.path.join(vlib.REPO, "app", "eth2wrap")
    for f in os.listdir(d):
        if f.endswith(".go"):
            try:
                if "func NewLazyVerif(" in open(os.path.join(d, f)).read():
                    return {}
            except OSError:
                pass
    ov = os.path.join(vlib.workdir(pid), "overlay.json")
    with open(ov, "w") as f:
        json.dump({"Replace": {os.path.join(d, "verif_export.go"): HOOK}}, f)
    return {"GOFLAGS": "-mod=mod -overlay=" + ov}


def main_cfg(flags):
    """the trace configuration with the deviations the probes have shown, per component (the variables of the two components
    a trace does not touch are kept minimal: TLC's cost per state follows the size of the state)"""
    txt = open(os.path.join(vlib.SPECS, FAMILY, TCFG)).read()
    for sw in flags:
        txt = txt.replace("%s = FALSE" % sw, "%s = TRUE" % sw)
    name = "_".join(sorted(s[3:] for s in flags)) or "strict"
    per = {}
    for m in "SLV":
        t = txt
        for other in "SLV":
            if other != m:
                t = re.sub(r" %sCalls = \{[^}]*\}" % other, " %sCalls = {1}" % other, t)
        per[m] = ("Eth2WrapTrace_run_%s_%s.cfg" % (m, name), t)
    return lambda trace: per[trace[0]["mode"]]


# ----------------------------------------------------------------------------------------------------------------------
# directed probes (one per finding) and directed corners
# ----------------------------------------------------------------------------------------------------------------------
def V(*vs):
    return [{"v": v, "pk": v} for v in vs]


def D(*ds):
    return [{"v": v, "slot": s, "pk": v} for v, s in ds]


OK8 = ["ok"] * 8


def call(c, n, op, **kw):
    st = {"ev": "Call", "c": c, "n": n, "op": op, "epoch": 0, "slot": 0, "g": "", "ver": "", "fees": [], "from": 0, "auto": OK8}
    st.update(kw)
    return st


def probe_realclash():
    # validator 1 really proposes slot 5 (epoch 1, 4 slots per epoch); validator 5 has no real duty and 5 % 4 = 1
    w = {"ev": "Cfg", "mode": "S", "spe": 4, "vals": V(1, 5), "real": {"1": D((1, 5))}, "blocks": {"4": {"ver": "capella", "tok": 7, "ntx": 25}}}
    return [w, call(1, 1, "duties", epoch=1), call(2, 1, "proposal", slot=5), call(3, 1, "submit", **{"from": 2})]


def probe_order():
    w = {"ev": "Cfg", "mode": "S", "spe": 4, "vals": V(1, 5, 9, 13, 2, 6, 10), "real": {}, "blocks": {}}
    s, c = [w], 0
    for e in (1, 2, 3, 4, 5, 6):
        for n in (1, 2, 3):
            c += 1
            s.append(call(c, n, "duties", epoch=e))
    return s


def probe_aliased():
    w = {"ev": "Cfg", "mode": "S", "spe": 4, "vals": V(1, 2), "real": {"1": D((1, 7))}, "blocks": {}}
    return [w, call(1, 1, "duties", epoch=1), {"ev": "Scribble", "c": 1}, call(2, 1, "dutiesc", epoch=1), call(3, 2, "duties", epoch=1)]


def probe_lookup():
    # two overlapping fetches of epoch 1 (the epoch is twice in the fifo), nine more epochs (epoch 1 is evicted, its second fifo
    # entry stays), then a proposal for the synthetic slot 6 of epoch 1: the re-fetched entry evicts itself
    w = {"ev": "Cfg", "mode": "S", "spe": 4, "vals": V(2), "real": {}, "blocks": {"5": {"ver": "deneb", "tok": 3, "ntx": 12}}}
    s = [w, call(1, 1, "duties", epoch=1, auto=[]), call(2, 1, "duties", epoch=1, auto=[])]
    s += [{"ev": "Ans", "c": 1, "how": "ok"}, {"ev": "Ans", "c": 2, "how": "ok"}] * 3
    for e in range(2, 11):
        s.append(call(e + 1, 1, "duties", epoch=e))
    s.append(call(12, 1, "proposal", slot=6))
    s.append(call(13, 1, "submit", **{"from": 12}))
    return s


def lcall(c, op, tok=0):
    return {"ev": "Call", "c": c, "op": op, "tok": tok}


def probe_dutiescache():
    return [{"ev": "Cfg", "mode": "L"}, lcall(1, "setdc", 4), lcall(2, "setvc", 3), lcall(3, "pdc"), {"ev": "PAns", "c": 3, "how": "ok"},
            lcall(4, "av"), lcall(5, "adc"), lcall(6, "sdc")]


PROBES = [("GROW-ETH2WRAP-synth-real-clash", probe_realclash), ("GROW-ETH2WRAP-synth-order", probe_order),
          ("GROW-ETH2WRAP-synth-aliased", probe_aliased), ("GROW-ETH2WRAP-synth-lookup", probe_lookup),
          ("GROW-ETH2WRAP-lazy-dutiescache", probe_dutiescache)]


def vv(*xs):
    return [{"i": i, "pk": i, "st": st} for i, st in xs]


def vcall(c, op, slot=0, auto=None):
    st = {"ev": "Call", "c": c, "op": op, "slot": slot}
    if auto is not None:
        st["auto"] = auto
    return st


def directed():
    out = []
    # S: every block version as base of a synthetic proposal, the round trip through SubmitProposal, fee recipients
    for k, ver in enumerate(VERSIONS + ["unknown"]):
        w = {"ev": "Cfg", "mode": "S", "spe": 4, "vals": V(2, 3), "real": {}, "blocks": {"3": {"ver": ver, "tok": 10 + k, "ntx": 10 * k + 7}}}
        out.append([w, call(1, 1, "prep", fees=[{"v": 2, "tok": 40 + k}, {"v": 9, "tok": 1}]), call(2, 1, "proposal", slot=6),
                    call(3, 2, "submit", **{"from": 2}), call(4, 1, "proposal", slot=7), call(5, 1, "proposal", slot=5),
                    call(6, 2, "submit", **{"from": 5})])
    # S: graffiti x version x blinded
    for bl in ("submit", "submitb"):
        for g in (SG, "real", SG + "!", SG[:-1], ""):
            s, c = [{"ev": "Cfg", "mode": "S", "spe": 4}], 0
            for ver in VERSIONS:
                c += 1
                s.append(call(c, 1, bl, g=g, ver=ver, auto=["ok" if c % 3 else "err"]))
            out.append(s)
    # S: no block anywhere / slot 1 / the first block found counts
    w = {"ev": "Cfg", "mode": "S", "spe": 2, "vals": V(1, 2, 3), "real": {}, "blocks": {"2": {"ver": "capella", "tok": 2, "ntx": 30}, "1": {"ver": "altair", "tok": 1, "ntx": 0}}}
    out.append([w, call(1, 1, "proposal", slot=1), call(2, 1, "proposal", slot=2), call(3, 1, "proposal", slot=3), call(4, 1, "proposal", slot=5),
                call(5, 1, "proposal", slot=4, auto=["ok", "ok", "ok", "ok", "ok", "err"]),
                call(6, 1, "proposal", slot=5, auto=["ok", "ok", "500"])])
    # L: one connect for many, failures retried, cancellation while waiting
    out.append([{"ev": "Cfg", "mode": "L"}, lcall(1, "av"), lcall(2, "gen"), lcall(3, "cv"), lcall(4, "setvc", 2), {"ev": "Tick"},
                {"ev": "PAns", "c": 1, "how": "err"}, {"ev": "Tick"}, {"ev": "Tick"}, {"ev": "Cancel", "c": 3}, {"ev": "Tick"},
                {"ev": "PAnsAny", "how": "errcl"}, {"ev": "Tick"}, {"ev": "PAnsAny", "how": "ok"}, {"ev": "Tick"}, {"ev": "Tick"},
                lcall(5, "av"), lcall(6, "setvc", 3), lcall(7, "cv"), lcall(8, "addr"), lcall(9, "name"), lcall(10, "active"),
                lcall(11, "synced"), lcall(12, "cfa")])
    out.append([{"ev": "Cfg", "mode": "L"}, lcall(1, "addr"), lcall(2, "name"), lcall(3, "active"), lcall(4, "synced"), lcall(5, "cfa"),
                lcall(6, "gen"), {"ev": "Cancel", "c": 6}, lcall(7, "av"), {"ev": "Cancel", "c": 7}, {"ev": "Tick"},
                {"ev": "PAns", "c": 6, "how": "ok"}, {"ev": "Tick"}])
    # V: the epoch boundary of app.go (Trim, GetBySlot) with readers around it, fallback to head, nil answers
    a1 = vv((1, "active_ongoing"), (2, "pending_queued"), (3, "active_exiting"))
    a2 = vv((1, "active_slashed"), (2, "active_ongoing"), (3, "exited_unslashed"), (4, "withdrawal_done"))
    out.append([{"ev": "Cfg", "mode": "V", "pubkeys": [1, 2, 3, 4]}, vcall(1, "head", auto=[{"how": "ok", "vals": a1}]), vcall(2, "head"),
                vcall(3, "head"), {"ev": "Burst", "calls": [vcall(4, "trim"), vcall(5, "slot", 64), vcall(6, "head"), vcall(7, "head")]},
                {"ev": "AnsAny", "how": "err"}, {"ev": "AnsAny", "how": "ok", "vals": a2}, {"ev": "AnsAny", "how": "ok", "vals": a1},
                {"ev": "AnsAny", "how": "ok", "vals": a1}, vcall(8, "head"), vcall(9, "slot", 65, auto=[{"how": "nilval"}]), vcall(10, "head"),
                vcall(11, "slot", 66, auto=[{"how": "nilmap"}]), vcall(12, "head", auto=[{"how": "ok", "vals": a2}])])
    return out


# ----------------------------------------------------------------------------------------------------------------------
# (a) histories of Eth2WrapGen -> schedules
# ----------------------------------------------------------------------------------------------------------------------
def pairs(f, key, val):
    """a TLA+ function with integer domain comes as a list (domain 1..n) or as an object"""
    if isinstance(f, list):
        return [{key: i + 1, val: x} for i, x in enumerate(f)]
    return [{key: int(k), val: x} for k, x in sorted(f.items(), key=lambda kv: int(kv[0]))]


def from_hist(mode, hist, spe):
    if mode == "S":
        s = [{"ev": "Cfg", "mode": "S", "spe": spe}]
        for e in hist:
            if e["ev"] == "Call":
                a = e["a"]
                s.append({"ev": "Call", "c": e["c"], "n": a["n"], "op": a["op"], "epoch": a["epoch"], "slot": a["slot"], "g": a["g"],
                          "ver": a["ver"], "fees": pairs(a["fees"], "v", "tok"), "from": 0, "auto": []})
            elif e["ev"] == "Ans":
                a = e["ans"]
                st = {"ev": "Ans", "c": e["c"], "how": a["how"]}
                if a["how"] == "ok":
                    st.update({"vals": pairs(a["vals"], "v", "pk"), "duties": a["duties"], "spe": a["spe"] or spe, "tok": a["tok"]})
                    if a["blk"]["ver"]:
                        st["blk"] = a["blk"]
                s.append(st)
            else:
                s.append({"ev": "Scribble", "c": e["c"]})
        return s
    if mode == "L":
        return [{"ev": "Cfg", "mode": "L"}] + [dict(e) for e in hist]
    return [{"ev": "Cfg", "mode": "V", "pubkeys": [1, 2, 3]}] + [dict(e) for e in hist]


# ----------------------------------------------------------------------------------------------------------------------
# (b) seeded random schedules
# ----------------------------------------------------------------------------------------------------------------------
def random_world(r, big):
    spe = r.choice([2, 4, 4, 8])
    n = r.choice([2, 3, 4, 5, 6 if big else 4])
    base = r.sample(range(1, 24), n)
    if r.random() < 0.7 and n >= 2:      # make two of them collide on their slot offset
        base[1] = base[0] + spe * r.choice([1, 2])
    vals = sorted(set(base))
    epochs = list(range(1, 14))
    real = {}
    for e in epochs:
        k = r.choice([0, 0, 1, 1, 2])
        vs = r.sample(vals, min(k, len(vals)))
        slots = r.sample(range(e * spe, e * spe + spe), min(len(vs), spe))
        # aim: a real duty in the slot another validator would get synthetically
        if vs and r.random() < 0.5:
            others = [v for v in vals if v not in vs]
            if others:
                slots[0] = e * spe + r.choice(others) % spe
                slots = list(dict.fromkeys(slots))
        real[str(e)] = D(*zip(vs, slots))
    blocks = {}
    for sl in range(1, 14 * spe + spe):
        if r.random() < 0.65:
            blocks[str(sl)] = {"ver": r.choice(VERSIONS + ["capella", "deneb", "electra"] + (["unknown"] if r.random() < 0.05 else [])),
                               "tok": sl % 200 + 1, "ntx": r.choice([0, 5, 9, 10, 19, 20, 25, 100])}
    return {"ev": "Cfg", "mode": "S", "spe": spe, "vals": V(*vals), "real": real, "blocks": blocks}, vals, spe


def autos(r, n=8, perr=0.06):
    return [("ok" if r.random() >= perr else r.choice(["err", "err", "zero", "500"])) for _ in range(n)]


def random_S(r, big):
    w, vals, spe = random_world(r, big)
    s, c = [w], 0
    kind = r.choice(["cluster", "cluster", "overlap", "evict", "mixed", "mixed"])
    props = []

    def nxt():
        nonlocal c
        c += 1
        return c

    def submit_from(p, n):
        if c < 20:
            s.append(call(nxt(), n, "submit", **{"from": p, "auto": autos(r, 1, 0.15)}))

    if kind == "cluster":
        nodes = r.choice([[1, 2], [1, 2, 3]])
        for e in r.sample(range(1, 6), 2):
            for n in nodes:
                if c < 18:
                    s.append(call(nxt(), n, r.choice(["duties", "duties", "dutiesc"]), epoch=e, auto=autos(r)))
                    if r.random() < 0.3:
                        s.append({"ev": "Scribble", "c": c})
            if r.random() < 0.5 and c < 18:
                s.append(call(nxt(), nodes[0], "prep", fees=[{"v": v, "tok": r.randint(1, 200)} for v in r.sample(vals, min(2, len(vals)))],
                              auto=autos(r, 1)))
            for sl in r.sample(range(e * spe, e * spe + spe), min(spe, 3)):
                if c < 18:
                    n = r.choice(nodes)
                    s.append(call(nxt(), n, "proposal", slot=sl, auto=autos(r, 12, 0.03)))
                    if r.random() < 0.6:
                        submit_from(c, r.choice(nodes))
    elif kind == "overlap":
        e = r.randint(1, 4)
        k = r.choice([2, 3])
        for _ in range(k):
            op = r.choice(["duties", "duties", "proposal"])
            s.append(call(nxt(), 1, op, epoch=e, slot=e * spe + r.randrange(spe), auto=autos(r, r.choice([0, 0, 1, 2, 3]), 0.0)))
        if r.random() < 0.3:
            s.append({"ev": "World", "vals": V(*r.sample(vals, max(1, len(vals) - 1)))})
        order = [r.randint(1, k) for _ in range(14)]
        for x in order:
            s.append({"ev": "Ans", "c": x, "how": "ok" if r.random() < 0.93 else "err"})
        for _ in range(10):
            s.append({"ev": "AnsAny", "how": "ok"})
        for x in range(1, k + 1):
            if r.random() < 0.3:
                s.append({"ev": "Scribble", "c": x})
        s.append(call(nxt(), 1, "duties", epoch=e, auto=autos(r)))
        s.append(call(nxt(), 1, "proposal", slot=e * spe + r.randrange(spe), auto=autos(r, 12, 0.0)))
    elif kind == "evict":
        first = r.randint(1, 2)
        if r.random() < 0.6:          # overlapping fetches of the first epoch
            s.append(call(nxt(), 1, "duties", epoch=first, auto=[]))
            s.append(call(nxt(), 1, r.choice(["duties", "proposal"]), epoch=first, slot=first * spe + r.randrange(spe), auto=[]))
            for _ in range(8):
                s.append({"ev": "AnsAny", "how": "ok"})
                s.append({"ev": "Ans", "c": 2, "how": "ok"})
        es = [e for e in range(first, first + r.choice([10, 11, 12])) if e <= 13]
        for e in es:
            if c < 15:
                s.append(call(nxt(), 1, "duties", epoch=e, auto=OK8))
        if r.random() < 0.4:
            s.append({"ev": "World", "vals": V(*r.sample(vals, max(1, len(vals) - 1)))})
        for e in (first, first, es[-1]):
            if c < 19:
                s.append(call(nxt(), 1, r.choice(["proposal", "proposal", "duties"]), epoch=e, slot=e * spe + r.randrange(spe),
                              auto=["ok"] * 12))
    else:
        for _ in range(r.randint(4, 14)):
            op = r.choice(["duties", "dutiesc", "proposal", "proposal", "submit", "submitb", "prep"])
            n = r.choice([1, 1, 2])
            e = r.randint(1, 3)
            if op in ("submit", "submitb"):
                s.append(call(nxt(), n, op, g=r.choice([SG, SG, "real", SG + " ", SG[1:], "x"]), ver=r.choice(VERSIONS), auto=autos(r, 1, 0.2)))
            elif op == "prep":
                s.append(call(nxt(), n, op, fees=[{"v": v, "tok": r.randint(1, 200)} for v in r.sample(vals + [77], r.randint(0, 2))],
                              auto=autos(r, 1, 0.2)))
            else:
                s.append(call(nxt(), n, op, epoch=e, slot=r.choice([1, 2, e * spe + r.randrange(spe)]), auto=autos(r, 12, 0.08)))
                if op == "proposal" and r.random() < 0.5:
                    submit_from(c, n)
                if op != "proposal" and r.random() < 0.25:
                    s.append({"ev": "Scribble", "c": c})
            if r.random() < 0.1:
                s.append({"ev": "World", "vals": V(*r.sample(vals, max(1, len(vals) - 1)))})
    return s


def random_L(r, big):
    s, c, conn = [{"ev": "Cfg", "mode": "L"}], 0, False
    for _ in range(r.randint(4, 30)):
        x = r.random()
        if x < 0.45 and c < 12:
            c += 1
            op = r.choice(["av", "av", "cv", "pdc", "adc", "sdc", "gen", "gen", "addr", "name", "active", "synced", "cfa", "setvc", "setvc", "setdc"])
            s.append(lcall(c, op, r.randint(1, 5) if op in ("setvc", "setdc") else 0))
        elif x < 0.65:
            s.append({"ev": "PAnsAny", "how": r.choice(["ok", "ok", "err", "err", "errcl"])})
        elif x < 0.72 and c:
            s.append({"ev": "PAns", "c": r.randint(1, c), "how": r.choice(["ok", "err", "errcl"])})
        elif x < 0.82 and c:
            s.append({"ev": "Cancel", "c": r.randint(1, c)})
        else:
            s.append({"ev": "Tick"})
    return s


def random_valset(r):
    n = r.choice([0, 1, 2, 3, 4])
    idx = r.sample(range(1, 9), n)
    return vv(*[(i, r.choice(STATUSES + ["active_ongoing", "active_ongoing"])) for i in sorted(idx)])


def random_ans(r, perr=0.2):
    x = r.random()
    if x < perr:
        return {"how": "err"}
    if x < perr + 0.04:
        return {"how": "nilmap"}
    if x < perr + 0.08:
        return {"how": "nilval"}
    return {"how": "ok", "vals": random_valset(r)}


def random_V(r, big):
    s, c, out = [{"ev": "Cfg", "mode": "V", "pubkeys": r.sample(range(1, 9), r.randint(1, 5))}], 0, 0
    cap = 4 if big else 3     # calls that may be under way at once (the trace spec infers the order in which they got the lock)

    def one():
        nonlocal c, out
        c += 1
        out += 1
        op = r.choice(["head", "head", "head", "slot", "trim"])
        return vcall(c, op, r.choice([5, 64, 65, 1000]) if op == "slot" else 0)

    for _ in range(r.randint(3, 24)):
        x = r.random()
        if x < 0.35 and c < 12 and out < cap:
            st = one()
            if r.random() < 0.5:
                st["auto"] = [random_ans(r) for _ in range(r.choice([1, 2]))]
                out = max(0, out - 1)
            s.append(st)
        elif x < 0.45 and c < 10 and out + 2 <= cap:
            s.append({"ev": "Burst", "calls": [one() for _ in range(2 if out + 3 > cap else r.choice([2, 3]))]})
        elif x < 0.9 or not c:
            a = random_ans(r)
            a["ev"] = "AnsAny"
            s.append(a)
            out = max(0, out - 1)
        else:
            a = random_ans(r)
            a.update({"ev": "Ans", "c": r.randint(1, c)})
            s.append(a)
    for _ in range(3):
        s.append({"ev": "AnsAny", "how": "ok", "vals": random_valset(r)})
    return s


def random_schedules(seed, ns, nl, nv, big):
    r = vlib.rng(seed, "eth2wrap-rnd")
    return [random_S(r, big) for _ in range(ns)] + [random_L(r, big) for _ in range(nl)] + [random_V(r, big) for _ in range(nv)]


# ----------------------------------------------------------------------------------------------------------------------
# binding self-tests: corrupt one recorded field / drop one event of an accepted trace -> must be rejected
# ----------------------------------------------------------------------------------------------------------------------
def mutators():
    def first(t, pred):
        for k, e in enumerate(t):
            if pred(e):
                return k
        return None

    def mode(t):
        return t[0].get("mode")

    def synth_moved(t):
        if mode(t) != "S":
            return None
        k = first(t, lambda e: e["ev"] == "Ret" and len(e["duties"]) >= 1 and e["err"] == "")
        if k is None:
            return None
        t[k]["duties"][-1]["slot"] += 1
        return t

    def synth_dropped(t):
        if mode(t) != "S":
            return None
        # a duties answer after a fetch whose last duty is synthetic: more duties than the beacon node listed
        for k, e in enumerate(t):
            if e["ev"] == "Ret" and e["err"] == "" and e["duties"]:
                dl = [x for x in t[:k] if x["ev"] == "Ans" and x["c"] == e["c"] and x["how"] == "ok" and x["duties"]]
                reals = dl[-1]["duties"] if dl else []
                reqs = [x for x in t[:k] if x["ev"] == "Req" and x["c"] == e["c"] and x["k"] == "duties"]
                if reqs and len(e["duties"]) > len(reals):
                    e["duties"].pop()
                    return t
        return None

    def synth_pubkey(t):
        if mode(t) != "S":
            return None
        k = first(t, lambda e: e["ev"] == "Ret" and e["duties"] and e["err"] == "")
        if k is None:
            return None
        t[k]["duties"][-1]["pk"] = (t[k]["duties"][-1]["pk"] + 1) % 90
        return t

    def proposal_field(field, delta):
        def f(t):
            if mode(t) != "S":
                return None
            k = first(t, lambda e: e["ev"] == "Ret" and e["g"] == SG)
            if k is None:
                return None
            if isinstance(t[k][field], int):
                t[k][field] += delta
            else:
                t[k][field] = "capella" if t[k][field] != "capella" else "deneb"
            return t
        return f

    def graffiti_lost(t):
        if mode(t) != "S":
            return None
        k = first(t, lambda e: e["ev"] == "Ret" and e["g"] == SG)
        if k is None:
            return None
        t[k]["g"] = "real"
        return t

    def forward_unobserved(t):
        # the request by which a real block was forwarded is not in the log (with its answer)
        if mode(t) != "S":
            return None
        k = first(t, lambda e: e["ev"] == "Req" and e["k"] in ("submit", "submitb"))
        if k is None:
            return None
        c = t[k]["c"]
        a = first(t[k:], lambda e: e["ev"] == "Ans" and e["c"] == c)
        if a is None:
            return None
        del t[k + a]
        del t[k]
        return t

    def synthetic_forwarded(t):
        # a swallowed block shows up at the beacon node
        if mode(t) != "S":
            return None
        for k, e in enumerate(t):
            if e["ev"] == "Call" and e["op"] in ("submit", "submitb") and k + 1 < len(t) and t[k + 1]["ev"] == "Ret" and t[k + 1]["c"] == e["c"]:
                req = {"ev": "Req", "c": e["c"], "k": e["op"], "epoch": 0, "idx": [], "slot": 0, "g": e["g"], "ver": e["ver"], "fees": []}
                ans = {"ev": "Ans", "c": e["c"], "how": "ok", "vals": [], "duties": [], "spe": 0, "blk": {"ver": "", "tok": 0, "ntx": 0}, "tok": 0}
                return t[:k + 1] + [req, ans] + t[k + 1:]
        return None

    def route_flipped(t):
        if mode(t) != "S":
            return None
        k = first(t, lambda e: e["ev"] == "Req" and e["k"] == "prop")
        if k is None:
            return None
        t[k]["k"] = "block"
        t[k]["slot"] -= 1
        return t

    def refetch_hidden(t):
        # a cache hit where the wrapper fetched: the three requests of a fetch removed
        if mode(t) != "S":
            return None
        k = first(t, lambda e: e["ev"] == "Req" and e["k"] == "vals")
        if k is None:
            return None
        c = t[k]["c"]
        keep, n = [], 0
        for j, e in enumerate(t):
            if j >= k and e.get("c") == c and e["ev"] in ("Req", "Ans") and n < 6:
                n += 1
                continue
            keep.append(e)
        return keep if n == 6 else None

    def lazy_client(t):
        if mode(t) != "L":
            return None
        k = first(t, lambda e: e["ev"] == "Ret" and e["cl"] > 0)
        if k is None:
            return None
        t[k]["cl"] += 1
        return t

    def lazy_connect_hidden(t):
        if mode(t) != "L":
            return None
        k = first(t, lambda e: e["ev"] == "Prov")
        if k is None:
            return None
        del t[k]
        return t

    def lazy_second_connect(t):
        # a failed connect before the successful one was a success too: the later connect is one too many
        if mode(t) != "L":
            return None
        ok = first(t, lambda e: e["ev"] == "PAns" and e["how"] == "ok")
        bad = first(t, lambda e: e["ev"] == "PAns" and e["how"] != "ok")
        if ok is None or bad is None or bad > ok:
            return None
        t[bad]["how"] = "ok"
        return t

    def lazy_cache_token(t):
        if mode(t) != "L":
            return None
        k = first(t, lambda e: e["ev"] == "Ret" and e["tok"] > 0)
        if k is None:
            return None
        t[k]["tok"] += 1
        return t

    def lazy_early_address(t):
        if mode(t) != "L":
            return None
        k = first(t, lambda e: e["ev"] == "Ret" and e["s"] == "" and any(x["ev"] == "Call" and x["c"] == e["c"] and x["op"] == "addr" for x in t))
        if k is None:
            return None
        t[k]["s"] = "addr-1"
        return t

    def val_inactive_listed(t):
        if mode(t) != "V":
            return None
        for e in t:
            if e["ev"] == "Ret" and e["err"] == "" and len(e["all"]) > len(e["act"]):
                x = [v for v in e["all"] if {"i": v["i"], "pk": v["pk"]} not in e["act"]][0]
                e["act"].append({"i": x["i"], "pk": x["pk"]})
                return t
        return None

    def val_active_missing(t):
        if mode(t) != "V":
            return None
        k = first(t, lambda e: e["ev"] == "Ret" and e["err"] == "" and e["act"])
        if k is None:
            return None
        t[k]["act"].pop()
        return t

    def val_fetch_hidden(t):
        if mode(t) != "V":
            return None
        k = first(t, lambda e: e["ev"] == "Req")
        if k is None:
            return None
        c = t[k]["c"]
        a = first(t[k:], lambda e: e["ev"] == "Ans" and e["c"] == c)
        if a is None:
            return None
        del t[k + a]
        del t[k]
        return t

    def val_byslot(t):
        if mode(t) != "V":
            return None
        for k, e in enumerate(t):
            if e["ev"] == "Ret" and e["err"] == "" and any(x["ev"] == "Call" and x["c"] == e["c"] and x["op"] == "slot" for x in t[:k]):
                e["byslot"] = not e["byslot"]
                return t
        return None

    def val_state(t):
        if mode(t) != "V":
            return None
        k = first(t, lambda e: e["ev"] == "Req" and e["state"] != "head")
        if k is None:
            return None
        t[k]["state"] = "head"
        return t

    def val_stale(t):
        # an answer from the cache although it was trimmed: the request and its answer of a call after a Trim are removed and the
        # call returns what the previous fetch had returned
        if mode(t) != "V":
            return None
        last = None
        for k, e in enumerate(t):
            if e["ev"] == "Ret" and e["err"] == "" and e["all"]:
                last = e
            if e["ev"] == "Req" and last is not None and any(x["ev"] == "Call" and x["op"] == "trim" for x in t[:k]):
                c = e["c"]
                if not any(x["ev"] == "Call" and x["c"] == c and x["op"] == "head" for x in t):
                    continue
                a = first(t[k:], lambda x: x["ev"] == "Ans" and x["c"] == c)
                rr = first(t[k:], lambda x: x["ev"] == "Ret" and x["c"] == c)
                if a is None or rr is None or t[k + a]["how"] != "ok":
                    continue
                t[k + rr]["act"], t[k + rr]["all"] = last["act"], last["all"]
                del t[k + a]
                del t[k]
                return t
        return None

    return [("S: a synthetic duty in another slot", synth_moved), ("S: a synthetic duty missing from the answer", synth_dropped),
            ("S: a duty with a foreign public key", synth_pubkey),
            ("S: synthetic proposal for another proposer", proposal_field("v", 1)), ("S: synthetic proposal for another slot", proposal_field("slot", 1)),
            ("S: synthetic proposal with another fee recipient", proposal_field("fee", 1)),
            ("S: synthetic proposal with all transactions but one", proposal_field("ntx", 1)),
            ("S: synthetic proposal from another base block", proposal_field("tok", 1)),
            ("S: synthetic proposal of another version", proposal_field("ver", 0)),
            ("S: synthetic proposal without the synthetic graffiti", graffiti_lost),
            ("S: a forwarded block never seen at the beacon node", forward_unobserved),
            ("S: a swallowed block seen at the beacon node", synthetic_forwarded),
            ("S: a forwarded proposal request recorded as synthetic route", route_flipped),
            ("S: a fetch not recorded (answered from the cache instead)", refetch_hidden),
            ("L: served by another client", lazy_client), ("L: a connect not recorded", lazy_connect_hidden),
            ("L: a failed connect before the successful one was a success too", lazy_second_connect),
            ("L: answered through another validator cache function", lazy_cache_token),
            ("L: an address before the connect", lazy_early_address),
            ("V: an inactive validator among the active ones", val_inactive_listed), ("V: an active validator missing", val_active_missing),
            ("V: a fetch not recorded", val_fetch_hidden), ("V: refreshed-by-slot flag flipped", val_byslot),
            ("V: by-slot request recorded as head request", val_state), ("V: answer from the cache after a Trim", val_stale)]


# ----------------------------------------------------------------------------------------------------------------------
# design check
# ----------------------------------------------------------------------------------------------------------------------
QUICK_MC = ["Eth2WrapMC_S_duties_q.cfg", "Eth2WrapMC_S_route_q.cfg", "Eth2WrapMC_S_prep_q.cfg", "Eth2WrapMC_S_submit.cfg",
            "Eth2WrapMC_S_errs.cfg", "Eth2WrapMC_S_live_q.cfg", "Eth2WrapMC_L_connect_q.cfg", "Eth2WrapMC_L_errcl_q.cfg",
            "Eth2WrapMC_L_valcache_q.cfg", "Eth2WrapMC_L_dutiescache.cfg", "Eth2WrapMC_L_ascoded_dutiescache.cfg", "Eth2WrapMC_L_mix.cfg",
            "Eth2WrapMC_L_live_q.cfg", "Eth2WrapMC_V_all_q.cfg", "Eth2WrapMC_V_nil_q.cfg", "Eth2WrapMC_V_live_q.cfg"]
THOROUGH_MC = ["Eth2WrapMC_S_duties.cfg", "Eth2WrapMC_S_duties2.cfg", "Eth2WrapMC_S_route.cfg", "Eth2WrapMC_S_prep.cfg",
               "Eth2WrapMC_S_submit.cfg", "Eth2WrapMC_S_errs.cfg", "Eth2WrapMC_S_live.cfg", "Eth2WrapMC_S_ascoded_duties.cfg",
               "Eth2WrapMC_S_ascoded_route.cfg", "Eth2WrapMC_L_connect.cfg", "Eth2WrapMC_L_valcache.cfg", "Eth2WrapMC_L_dutiescache.cfg",
               "Eth2WrapMC_L_ascoded_dutiescache.cfg", "Eth2WrapMC_L_mix.cfg", "Eth2WrapMC_L_live.cfg", "Eth2WrapMC_V_all.cfg",
               "Eth2WrapMC_V_four.cfg", "Eth2WrapMC_V_live.cfg"]
CONTROLS = (("Eth2WrapMC_ctl_realclash.cfg", "S_NoRealClash", "as coded: real duties' slots are not excluded from the synthetic assignment"),
            ("Eth2WrapMC_ctl_order.cfg", "S_Deterministic", "as coded: the winner of a synthetic slot follows Go's map iteration order"),
            ("Eth2WrapMC_ctl_aliased.cfg", "S_Genuine", "as coded: cached duties handed out by reference, a caller overwrites the public keys"),
            ("Eth2WrapMC_ctl_lookup.cfg", "S_Route", "as coded: second look-up of the epoch after Duties() returned"),
            ("Eth2WrapMC_ctl_fwdsynth.cfg", "S_Submit", "synthetic blocks are forwarded to the beacon node"),
            ("Eth2WrapMC_ctl_nosynth.cfg", "S_Maximal", "no synthetic duties are assigned"),
            ("Eth2WrapMC_ctl_nobound.cfg", "S_Bound", "the cache never evicts"),
            ("Eth2WrapMC_ctl_nosynthroute.cfg", "S_Route", "Proposal forwards synthetic slots"),
            ("Eth2WrapMC_ctl_nochk2.cfg", "L_OneConnect", "no second look for the client under the connect lock"),
            ("Eth2WrapMC_ctl_noprovlock.cfg", "L_OneConnect", "connects are not serialised"),
            ("Eth2WrapMC_ctl_usefailed.cfg", "L_NoFailedClient", "a client that came with an error is installed"),
            ("Eth2WrapMC_ctl_novc.cfg", "L_VCApplied", "the remembered validator cache is not handed to the new client"),
            ("Eth2WrapMC_ctl_dclost.cfg", "L_DCApplied", "as coded: the remembered duties caches are not handed to the new client"),
            ("Eth2WrapMC_ctl_nofilter.cfg", "V_CacheExact", "inactive validators are cached as active"),
            ("Eth2WrapMC_ctl_unlockedfetch.cfg", "V_FreshAfterTrim", "the beacon node is asked without holding the lock (a Trim in between is lost)"),
            ("Eth2WrapMC_ctl_alwaysfetch.cfg", "V_FetchWhenEmpty", "GetByHead always asks the beacon node"),
            ("Eth2WrapMC_ctl_flagalways.cfg", "V_BySlotFlag", "GetBySlot always reports a refresh by slot"),
            ("Eth2WrapMC_ctl_errclears.cfg", "V_ErrKeeps", "a failed refresh clears the cache"),
            ("Eth2WrapMC_ctl_errkeepslock.cfg", "VReturns", "liveness control: the lock is not released when the beacon node fails"))
GEN = (("S", "Eth2WrapGen_S.cfg", 2), ("L", "Eth2WrapGen_L.cfg", 0), ("V", "Eth2WrapGen_V.cfg", 0))


def design_check(o, tier, seed):
    """Design check, the controls that MUST be violated and the schedule generation: independent TLC runs side by side.  Returns the
    generated histories and a function that waits for the model-checking runs and books their results."""
    from concurrent.futures import ThreadPoolExecutor
    thorough = tier == "thorough"
    mains = THOROUGH_MC if thorough else QUICK_MC
    controls = CONTROLS
    if os.environ.get("VERIF_ETH2WRAP_NOMC"):      # mutation experiments: the design check does not depend on the tree
        mains, controls = [], ()
    n = 600 if thorough else 60
    jobs = [("Eth2WrapGen", cfg, dict(simulate="num=%d" % n, depth=300, seed=seed + k, workers=1)) for k, (_, cfg, _) in enumerate(GEN)]
    jobs += [("Eth2WrapMC", c, dict(workers=4 if thorough else 2, heap="3g")) for c in mains]
    jobs += [("Eth2WrapMC", c, dict(workers=1, heap="2g")) for c, _, _ in controls]
    dirs = [vlib.scratch(o.pid, FAMILY) for _ in jobs]
    ex = ThreadPoolExecutor(max_workers=6 if thorough else 12)
    futs = [ex.submit(vlib.tlc, o.pid, FAMILY, j[0], j[1], timeout=1700, sdir=d, **j[2]) for j, d in zip(jobs, dirs)]
    hists = {}
    for (m, cfg, _), f in zip(GEN, futs[:len(GEN)]):
        g = f.result()
        if g.error or g.timed_out or (g.violation and g.violation != "deadlock"):
            raise vlib.Infra("schedule generation failed (%s): %s\n%s" % (cfg, g.summary(), g.out[-2000:]))
        seen, out = set(), []
        for p in vlib.tagged_prints(g, "SCHED"):
            if p not in seen:
                seen.add(p)
                out.append(json.loads(p))
        if not out:
            raise vlib.Infra("schedule generation (%s): no histories" % cfg)
        hists[m] = out

    def join():
        res = [f.result() for f in futs[len(GEN):]]
        ex.shutdown()
        for cfg, r in zip(mains, res):
            vlib.require_mc_ok(r, cfg)
            o.add_mc("Eth2Wrap/" + cfg[:-4], r)
        for (cfg, inv, what), r in zip(controls, res[len(mains):]):
            got = r.violation
            if ("Temporal property %s was violated" % inv) in r.out or ("Action property %s" % inv) in r.out:
                got = inv
            if got != inv:
                raise vlib.Infra("design-spec control failed: '%s' not caught by %s: %s" % (what, inv, r.summary()))
            o.selftests.append({"control": "Eth2Wrap spec variant '%s' violates %s" % (what, inv), "rejected_as_required": True})
    return hists, join


def observed(tr):
    ev = [e for t in tr for e in t]
    by = {}
    for t in tr:
        by[t[0]["mode"]] = by.get(t[0]["mode"], 0) + 1
    return {"traces_S_L_V": [by.get("S", 0), by.get("L", 0), by.get("V", 0)],
            "synthetic_proposals": sum(1 for e in ev if e["ev"] == "Ret" and e.get("g") == SG),
            "forwarded_proposal_requests": sum(1 for e in ev if e["ev"] == "Req" and e.get("k") == "prop"),
            "submissions_forwarded": sum(1 for e in ev if e["ev"] == "Req" and e.get("k") in ("submit", "submitb")),
            "submissions": sum(1 for e in ev if e["ev"] == "Call" and e.get("op") in ("submit", "submitb")),
            "duties_fetches": sum(1 for e in ev if e["ev"] == "Req" and e.get("k") == "vals"),
            "duties_answers": sum(1 for e in ev if e["ev"] == "Ret" and e.get("duties")),
            "connects": sum(1 for e in ev if e["ev"] == "Prov"),
            "connects_failed": sum(1 for e in ev if e["ev"] == "PAns" and e["how"] != "ok"),
            "lazy_calls_served": sum(1 for e in ev if e["ev"] == "Ret" and e.get("cl", 0) > 0),
            "validator_fetches": sum(1 for e in ev if e["ev"] == "Req" and "state" in e),
            "validator_fallbacks": sum(1 for t in tr for k, e in enumerate(t) if e["ev"] == "Req" and e.get("state") == "head" and
                                       any(x["ev"] == "Req" and x["c"] == e["c"] and x.get("state") != "head" for x in t[:k])),
            "validator_cache_hits": sum(1 for t in tr if t[0]["mode"] == "V" for k, e in enumerate(t) if e["ev"] == "Ret" and e["all"] and
                                        not any(x["ev"] == "Req" and x["c"] == e["c"] for x in t[:k]))}


def stage(o, tier, seed):
    """Run the Eth2Wrap family as a stage of a check."""
    # shared machine: the many small JVMs of this family do not need vlib's default heap of 8g each
    old = os.environ.get("VERIF_TLC_HEAP")
    os.environ["VERIF_TLC_HEAP"] = old or "3g"
    try:
        _stage(o, tier, seed)
    finally:
        if old is None:
            os.environ.pop("VERIF_TLC_HEAP", None)


def _stage(o, tier, seed):
    t0 = time.time()
    thorough = tier == "thorough"
    env = exec_env(o.pid)
    hists, join_design = design_check(o, tier, seed)
    kw = dict(env=env, chunk=150, exec_timeout=900, tv_timeout=900)
    # the known deviations of the tree: one directed probe each through the regular known-finding path; the other schedules
    # are validated with exactly the deviations the probes have shown
    flags = probe_flags(o, kw)
    if o.violations:
        return
    cfg = main_cfg(flags)
    o.extra["eth2wrap_deviations_as_coded"] = flags
    r = vlib.rng(seed, "eth2wrap-gen")
    gen = []
    for m, _, spe in GEN:
        hs = hists[m]
        r.shuffle(hs)
        gen += [from_hist(m, h, spe) for h in hs[:(1500 if thorough else 150)]]
    rnd = random_schedules(seed, 2500 if thorough else 260, 1200 if thorough else 140, 1200 if thorough else 140, thorough)
    o.extra["eth2wrap_histories_by_tlc"] = len(gen)
    vlib.conformance(o, FAMILY, TRACE, cfg, PKG, directed() + gen, tag="e2wgen", **kw)
    vlib.conformance(o, FAMILY, TRACE, cfg, PKG, rnd, tag="e2wrnd", **kw)
    join_design()
    tr = []
    for tag in ("e2wgen", "e2wrnd"):
        tr += vlib.split_traces(vlib.read_ndjson(os.path.join(vlib.workdir(o.pid), "trace_%s.ndjson" % tag)))
    if not o.violations:
        ms = mutators()
        nself = len(o.selftests)
        vlib.binding_selftest(o, FAMILY, TRACE, cfg, tr, ms)
        if len(o.selftests) - nself < len(ms):
            have = {s["control"] for s in o.selftests[nself:]}
            raise vlib.Infra("Eth2Wrap binding self-test: no applicable trace for: %s" % [n for n, _ in ms if n not in have])
    obs = observed(tr)
    o.extra["eth2wrap_observed"] = obs
    if not o.violations and (obs["synthetic_proposals"] < 30 or obs["submissions_forwarded"] < 20 or obs["connects_failed"] < 20 or
                             obs["lazy_calls_served"] < 50 or obs["validator_fetches"] < 100 or obs["validator_cache_hits"] < 30 or
                             obs["validator_fallbacks"] < 5 or obs["duties_fetches"] < 100):
        raise vlib.Infra("vacuous Eth2Wrap run: %s" % obs)
    log("[%s] Eth2Wrap stage: %d TLC histories + %d random + directed schedules -> %d traces, %s, %.0fs"
        % (o.pid, len(gen), len(rnd), len(tr), obs, time.time() - t0))


def main(tier="quick", seed=1, pid="GETH2WRAP"):
    """Stand-alone driver (the evidence file is written by checks/grow_all.py when the family is registered)."""
    vlib.workdir(pid, fresh=True)
    o = vlib.Outcome(pid, tier, seed)
    try:
        stage(o, tier, int(seed))
    except vlib.Infra as e:
        log("INFRA: %s" % e)
        return 2
    for fid, txt in o.known:
        log("KNOWN-FINDING: property=%s %s: %s" % (pid, fid, txt))
    for path, txt in o.violations:
        log("VIOLATION property=%s replay=%s" % (pid, path))
        log("  " + txt)
    if o.violations:
        return 1
    for m in o.mc_runs:
        log("[%s]   %s: %d distinct / %d generated states, depth %d, %.0fs" % (pid, m["config"], m["distinct"], m["generated"], m["depth"], m["wall_s"]))
    log("[%s] OK tier=%s seed=%s: %d MC states, %d traces validated, %d self-test controls, %.0fs"
        % (pid, tier, seed, o.states, o.traces, len(o.selftests), time.time() - o.t0))
    return 0


def probe_flags(o, kw):
    """The deviations of the tree: one directed probe each.  Fast path: the probes are executed once and validated against the strict
    configuration and, each, against the configuration that switches exactly its deviation on; strict rejects + deviation accepts =
    the known finding.  Anything else that is rejected goes through vlib.conformance (re-execution, replay file, VIOLATION)."""
    env = kw.get("env")
    scheds = [mk() for _, mk in PROBES]
    traces, sids, wall = vlib.run_schedules(o.pid, PKG, "TestExec", scheds, tag="e2wprobe", env=env)
    if len(traces) != len(scheds) or sids != list(range(len(scheds))):
        raise vlib.Infra("probes: %d traces for %d schedules" % (len(traces), len(scheds)))
    strict = vlib.validate_traces(o.pid, FAMILY, TRACE, TCFG, traces)
    dev = vlib.validate_traces(o.pid, FAMILY, TRACE, lambda t: DEV_CFG[PROBES[t[0]["sid"]][0]], traces)
    o.schedules += len(scheds)
    o.traces += len(traces)
    o.trace_events += sum(len(t) for t in traces)
    o.trace_states += strict.states + dev.states
    rej = {i: (pos, why) for i, pos, why in strict.rejected}
    devrej = {i for i, _, _ in dev.rejected}
    log("[%s] %s/probes: %d schedules executed in %.1fs: strict accepts %d, deviation configurations accept %d"
        % (o.pid, FAMILY, len(scheds), wall, len(strict.accepted), len(traces) - len(devrej)))
    flags, redo = [], []
    for k, (fid, _) in enumerate(PROBES):
        if k not in rej:
            continue
        if k in devrej:
            redo.append(k)
            continue
        pos, why = rej[k]
        o.known.append((fid, "%s at event %d %s" % (why, pos, json.dumps(traces[k][pos] if pos < len(traces[k]) else None)[:200])))
        flags.append([sw for f, sw, _ in FINDINGS if f == fid][0])
    for k in redo:
        vlib.conformance(o, FAMILY, TRACE, TCFG, PKG, [scheds[k]], tag="e2wprobe%d" % k, dev_cfgs=[(PROBES[k][0], DEV_CFG[PROBES[k][0]])], **kw)
    return [sw for _, sw, _ in FINDINGS if sw in flags]


def replay(path):
    rp = json.load(open(path))
    o = vlib.Outcome(rp.get("property", "GETH2WRAP"), "quick", 0)
    env = exec_env(o.pid)
    flags = probe_flags(o, dict(env=env))
    o.known, o.violations = [], []
    vlib.conformance(o, FAMILY, rp["trace_module"], main_cfg(flags), rp["pkg"], [rp["schedule"]], tag="replay", env=env)
    for p, t in o.violations:
        log("replay: " + t)
    return 1 if o.violations else 0


if __name__ == "__main__":
    import sys
    sys.exit(main(*(sys.argv[1:3] or ["quick", 1])))
