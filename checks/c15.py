"""C15 - the scheduler triggers every resolved duty exactly once, not before its offset, only for active cluster
validators, with the beacon node's definitions (core/scheduler/scheduler.go, offset.go)."""
import json, os
import vlib
from vlib import log

FAMILY = "Scheduler"
SLOTMS = 12000
MODES = ["direct", "cache", "nocache"]
RULE = ("schedules = a scripted beacon node (validators with activation/exit epochs incl. pending and foreign ones, "
        "attester/proposer/sync assignments per epoch, ordinals of failing requests), a start time and a sequence of "
        "clock moves (on time, mid-slot, several slots at once landing on / after a slot boundary); generated (a) by TLC "
        "simulation of SchedulerGen and (b) by a seeded random generator (3-5 epochs of 3-4 slots, trimming reached); "
        "executed on the real scheduler.NewForT inside a synctest bubble with a fake clock, reaching the node directly, "
        "through a real eth2wrap.DutiesCache, or with feature disable_duties_cache; plus the alpha features "
        "fetch_att_on_block / fetch_att_on_block_with_delay (off / either / both) with SSE head events delivered to "
        "Scheduler.HandleHeadEvent before the slot's tick, from inside schedSlotFunc, between slot start and the attester "
        "deadline, on/around 1/3 and 1/3+300ms, after it, twice, for other slots and slots without attester duty (flags on: "
        "the scheduler runs on the synctest bubble's virtual clock, every event carries its exact virtual instant); "
        "distinct = distinct recorded traces")


# ------------------------------------------------------------------------------------------------
def from_tlc(hist, k):
    """A behaviour of SchedulerGen (SlotDur = 3 units per slot) as an executor schedule.  Head events recorded while
    the run loop had just received a slot are delivered from inside schedSlotFunc of that slot (Cfg "hs"), the others
    as Head steps between the clock moves; a head event one unit before a slot boundary is moved to 1..3999 ms before
    it (k picks), so that "just before the slot's tick" is reached."""
    unit = SLOTMS // 3
    c = hist[0]
    t = c["truth"]
    fails, n = [], 0
    steps, hs = [], []
    feat = c.get("feat", "off")
    now = c["start"] * unit
    for e in hist[1:]:
        if e["ev"] == "Call":
            if not e["ok"]:
                fails.append(n)
            n += 1
        elif e["ev"] == "Advance":
            now = e["to"] * unit
            steps.append({"ev": "Advance", "to": now})
        elif e["ev"] == "Head":
            if e["atsched"]:
                hs.append({"at": e["sslot"], "slot": e["slot"]})
            else:
                if now % SLOTMS == 2 * unit and (k + len(steps)) % 2 == 0:
                    now += unit - [1, 7, 250, 3999][(k + len(steps) // 2) % 4]
                    steps.append({"ev": "Advance", "to": now})
                steps.append({"ev": "Head", "slot": e["slot"]})
    if feat == "delay" and k % 4 == 3:
        feat = "both"
    cfg = {"ev": "Cfg", "S": t["S"], "slotms": SLOTMS, "start": c["start"] * unit, "mode": MODES[k % 3],
           "vals": sorted(t["vals"], key=lambda v: v["id"]), "att": t["att"], "pro": t["pro"], "sync": t["sync"],
           "fails": fails, "feat": feat, "clock": "virt" if feat != "off" or k % 2 else "fake", "fo": True, "hs": hs}
    return [cfg] + steps


def random_schedules(seed, n, big):
    r = vlib.rng(seed, "c15")
    out = []
    for k in range(n):
        S = r.choice([3, 3, 4])
        NE = r.choice([3, 3, 4, 5])
        nslots = S * NE
        vals = [{"id": "a", "known": True, "act": 0, "exit": 99, "unsol": r.random() < 0.3}]
        if r.random() < 0.8:
            vals.append({"id": "b", "known": True, "act": r.randint(1, 2), "exit": 99, "unsol": r.random() < 0.6})
        if r.random() < 0.6:
            vals.append({"id": "c", "known": True, "act": 0, "exit": r.randint(1, 3), "unsol": r.random() < 0.6})
        if r.random() < 0.4:
            vals.append({"id": "p", "known": True, "act": 50, "exit": 99, "unsol": True})
        if r.random() < 0.7:
            vals.append({"id": "f", "known": False, "act": 0, "exit": 99, "unsol": True})
        if r.random() < 0.1:
            vals = [v for v in vals if v["id"] != "a"] or vals      # possibly no active validator at all for a while
        att, pro, syn = [], [], []
        for v in vals:
            for ep in range(NE):
                active = v["known"] and v["act"] <= ep < v["exit"]
                if r.random() < (0.9 if active else 0.5):
                    att.append({"v": v["id"], "slot": ep * S + r.randrange(S), "tag": r.randint(1, 9)})
                if r.random() < 0.3:
                    syn.append({"v": v["id"], "ep": ep, "tag": r.randint(1, 9)})
        dens = r.choice([0.0, 0.2, 0.4, 0.8])
        for s in range(nslots):
            if r.random() < dens:
                pro.append({"v": r.choice(vals)["id"], "slot": s, "tag": 0})
        kind = r.choice(["clean", "clean", "fail", "fail", "burst", "jumps", "mixed", "mixed"])
        fails = []
        if kind in ("fail", "mixed"):
            fails = sorted(set(r.randrange(0, 70) for _ in range(r.choice([1, 2, 3, 5]))))
        if kind == "burst":
            a = r.randrange(0, 30)
            fails = list(range(a, a + r.randint(2, 9)))
        start = r.choice([0, 0, SLOTMS, r.randrange(0, S * SLOTMS), r.randrange(S) * SLOTMS, (S - 1) * SLOTMS,
                          (S + r.randrange(S)) * SLOTMS])
        steps = []
        now = start
        end = nslots * SLOTMS
        pj = {"clean": 0.0, "fail": 0.05, "burst": 0.05, "jumps": 0.5, "mixed": 0.25}[kind]
        while now < end and len(steps) < 60:
            nb = (now // SLOTMS + 1) * SLOTMS
            x = r.random()
            if x < pj:
                j = r.randint(1, 3)
                to = nb + j * SLOTMS + r.choice([0, 0, 1, r.randrange(1, SLOTMS)])
            elif x < pj + 0.1 and nb - now > 2:
                to = r.choice([nb - 1, now + r.randrange(1, nb - now)])     # stays inside the slot
            elif x < pj + 0.2:
                to = nb + r.randrange(1, SLOTMS)                              # late inside the next slot
            else:
                to = nb
            steps.append({"ev": "Advance", "to": to})
            now = to
        cfg = {"ev": "Cfg", "S": S, "slotms": SLOTMS, "start": start, "mode": r.choice(MODES), "vals": vals,
               "att": att, "pro": pro, "sync": syn, "fails": fails}
        out.append([cfg] + steps)
    return out


# instants (ms into the slot) at which a head event for a slot is interesting: the attester deadline is 4000 (4300 with
# the _with_delay flag), the aggregator's 8000; negative = before the slot's tick
HEAD_OFFS = [-11000, -4001, -3000, -300, -7, -1, 0, 1, 300, 2000, 3999, 4000, 4001, 4299, 4300, 4301, 6000, 8000, 11999]


def feature_schedules(seed, n):
    """Feature flags x head events.  The scripted node is drawn as in random_schedules (fewer epochs); on top: the
    flag setting, the clock ("virt" whenever a flag is on; flags off: both clocks) and head events: for slots with and
    without attester duty, before the tick (also from inside schedSlotFunc: after the tick, before scheduleSlot did
    anything), between slot start and the deadline, exactly on / around the deadlines, after them, twice, for the
    next / previous / a far slot, with FetchOnly unregistered."""
    r = vlib.rng(seed, "c15-feat")
    base = random_schedules(seed * 7919 + 13, n, False)
    out = []
    for k, sch in enumerate(base):
        cfg = dict(sch[0])
        S = cfg["S"]
        nslots = min(S * 3 + r.randrange(S), max(d["slot"] for d in cfg["att"]) + 2 if cfg["att"] else S * 2)
        fam = ["on", "on", "delay", "both", "off", "off"][k % 6]
        cfg["feat"] = fam
        cfg["clock"] = "virt" if fam != "off" or k % 4 == 0 else "fake"
        cfg["fo"] = r.random() < 0.93
        cfg["fails"] = [f for f in cfg["fails"] if r.random() < 0.5]
        att_slots = sorted({d["slot"] for d in cfg["att"]})
        start = cfg["start"]
        first = start // SLOTMS
        heads = []          # (time, slot)
        dens = r.choice([0.3, 0.6, 0.9])
        for n_ in range(first, nslots + 1):
            if n_ in att_slots:
                if r.random() > dens:
                    continue
            elif r.random() > 0.15:
                continue
            for _ in range(r.choice([1, 1, 1, 2, 2, 3])):
                off = r.choice(HEAD_OFFS) if r.random() < 0.85 else r.randrange(-SLOTMS, SLOTMS)
                tgt = n_ + (r.choice([1, -1, 5, -4]) if r.random() < 0.12 else 0)
                heads.append((n_ * SLOTMS + off, max(0, tgt)))
        hs = []
        if r.random() < 0.6:
            for n_ in range(first, nslots + 1):
                if r.random() < (0.5 if n_ in att_slots else 0.1):
                    hs.append({"at": n_, "slot": n_ + (r.choice([1, -1]) if r.random() < 0.15 and n_ > 0 else 0)})
        cfg["hs"] = hs
        heads = sorted(h for h in heads if h[0] >= start)
        steps, now = [], start
        end = (nslots + 1) * SLOTMS
        if cfg["clock"] == "virt":
            for (tm, sl) in heads:
                if tm > now:
                    steps.append({"ev": "Advance", "to": tm})
                    now = tm
                steps.append({"ev": "Head", "slot": sl})
            steps.append({"ev": "Advance", "to": max(end, now + 1)})
        else:
            # fake clock (flags off): the clock moves of the base schedule; the head events go between them
            hq = list(heads)
            for st in sch[1:]:
                while hq and hq[0][0] < st["to"]:
                    tm, sl = hq.pop(0)
                    if tm > now and tm // SLOTMS == now // SLOTMS:      # stay inside the slot: no tick in between
                        steps.append({"ev": "Advance", "to": tm})
                        now = tm
                    steps.append({"ev": "Head", "slot": sl})
                steps.append(st)
                now = st["to"]
                if now >= end:
                    break
        out.append([cfg] + steps)
    return out


# ------------------------------------------------------------------------------------------------
def mutators():
    def first(t, pred):
        for i, e in enumerate(t):
            if pred(e):
                return i
        return None

    def drop_trigger(t):
        i = first(t, lambda e: e.get("ev") == "Trigger")
        if i is None:
            return None
        del t[i]
        return t

    def alter_def(t):
        i = first(t, lambda e: e.get("ev") == "Trigger" and e["defs"])
        if i is None:
            return None
        t[i]["defs"][0]["tag"] += 1
        return t

    def early_deadline(t):
        i = first(t, lambda e: e.get("ev") == "Delay")
        if i is None:
            return None
        t[i]["dl"] -= 1
        return t

    def dup_trigger(t):
        i = first(t, lambda e: e.get("ev") == "Trigger")
        if i is None:
            return None
        t.insert(i + 1, json.loads(json.dumps(t[i])))
        return t

    def foreign_def(t):
        ids = [v["id"] for v in t[0]["cfg"]["vals"] if not v["known"]]
        i = first(t, lambda e: e.get("ev") == "Trigger" and e["defs"])
        if i is None or not ids:
            return None
        d = json.loads(json.dumps(t[i]["defs"][0]))
        d["v"] = d["dv"] = ids[0]
        t[i]["defs"].append(d)
        return t

    def future_slot(t):
        i = first(t, lambda e: e.get("ev") == "Sched")
        if i is None:
            return None
        t[i]["slot"] += 1
        return t

    def drop_slotsub(t):
        i = first(t, lambda e: e.get("ev") == "SlotSub")
        if i is None:
            return None
        del t[i]
        return t

    def flip_call(t):
        i = first(t, lambda e: e.get("ev") == "Call" and e["kind"] == "att" and e["ok"] and e["resp"])
        if i is None:
            return None
        t[i]["ok"] = False
        t[i]["resp"] = []
        return t
    def feat_on(t):
        return t[0]["cfg"].get("feat", "off") != "off"

    def waited_early(t):
        # the instant of an attester duty that waited on the clock itself (feature flags) one ms earlier
        if not feat_on(t):
            return None
        i = first(t, lambda e: e.get("ev") == "Trigger" and e["type"] == "att")
        if i is None or t[i - 1].get("ev") != "Advance" or t[i - 2].get("ev") == "Advance":
            return None
        t[i - 1]["to"] -= 1
        t[i]["at"] -= 1
        return t

    def waited_dropped(t):
        if not feat_on(t):
            return None
        i = first(t, lambda e: e.get("ev") == "Trigger" and e["type"] == "att")
        if i is None:
            return None
        del t[i]
        return t

    def waited_dup(t):
        # the head event's early fetch logged as a second call of the duty subscribers
        if not feat_on(t):
            return None
        i = first(t, lambda e: e.get("ev") == "FetchOnly")
        if i is None:
            return None
        t[i]["ev"] = "Trigger"
        return t

    def wrong_at(t):
        i = first(t, lambda e: e.get("ev") == "Trigger" and "at" in e)
        if i is None:
            return None
        t[i]["at"] += 1
        return t
    return [("Trigger event dropped", drop_trigger), ("definition altered", alter_def),
            ("flags on: attester duty reaches the subscribers one ms before its deadline", waited_early),
            ("flags on: attester Trigger dropped", waited_dropped),
            ("flags on: FetchOnly call logged as a duty subscriber call", waited_dup),
            ("Trigger carries an instant that is not the clock's", wrong_at),
            ("deadline one ms early", early_deadline), ("Trigger duplicated", dup_trigger),
            ("definition of a foreign validator added", foreign_def), ("scheduled slot in the future", future_slot),
            ("SlotSub event dropped", drop_slotsub), ("successful request logged as failed", flip_call)]


CONTROLS = [("nofilter", "OnlyAssigned"), ("foreign", "OnlyAssigned"), ("early", "NotEarly"),
            ("strictskip", "Complete"), ("dupfire", "AtMostOnce"), ("retick", "TickOrder"),
            ("headfire", "NotEarly")]       # flags on: no wait when the slot's head event was handled before the trigger goroutine started


def run(tier, seed):
    o = vlib.Outcome("C15", tier, seed)
    thorough = tier == "thorough"
    # stage 0: design check
    cfgs = ["SchedulerMC_thorough.cfg", "SchedulerMC_fail3.cfg"] if thorough else ["SchedulerMC_quick.cfg"]
    cfgs += ["SchedulerMC_interleave.cfg", "SchedulerMC_either.cfg"]
    # feature flags + head events (runs next to the controls)
    featcfg = "SchedulerMC_feat_thorough.cfg" if thorough else "SchedulerMC_feat.cfg"
    if os.environ.get("C15_SKIP_MC"):       # mutation experiments: the design check does not depend on the repository
        cfgs = []
        o.notes.append("design check skipped (C15_SKIP_MC)")
    # controls: seeded defects in the design spec must violate the invariant meant to exclude them
    from concurrent.futures import ThreadPoolExecutor
    ctl = [] if os.environ.get("C15_SKIP_MC") else CONTROLS
    dirs = [vlib.scratch("C15", FAMILY) for _ in ctl]       # scratch() is not thread-safe: create the directories first
    fdir = vlib.scratch("C15", FAMILY)
    with ThreadPoolExecutor(max_workers=8) as ex:
        ffut = None
        if cfgs:            # runs next to the other configurations
            ffut = ex.submit(vlib.tlc, "C15", FAMILY, "SchedulerMC", featcfg, timeout=1700 if thorough else 600,
                             workers=4, heap="6g" if thorough else "3g", sdir=fdir)
        for c in cfgs:
            r = vlib.tlc("C15", FAMILY, "SchedulerMC", c, timeout=1700 if thorough else 600, heap="6g" if thorough else "3g")
            vlib.require_mc_ok(r, c)
            o.add_mc(c[:-4], r)
        res = list(ex.map(lambda cd: vlib.tlc("C15", FAMILY, "SchedulerMC", "SchedulerMC_ctl_%s.cfg" % cd[0][0], timeout=300,
                                              workers=2, heap="2g", sdir=cd[1]), zip(ctl, dirs)))
        if ffut is not None:
            r = ffut.result()
            vlib.require_mc_ok(r, featcfg)
            o.add_mc(featcfg[:-4], r)
    for (var, inv), r in zip(ctl, res):
        if r.violation != inv:
            raise vlib.Infra("design-spec control failed: variant %s should violate %s: %s" % (var, inv, r.summary()))
        o.selftests.append({"control": "spec variant %s violates %s" % (var, inv), "rejected_as_required": True})
    # stage 1: schedules
    hists, g = vlib.gen_schedules("C15", FAMILY, "SchedulerGen", "SchedulerGen.cfg", num=600 if thorough else 80,
                                  depth=500, seed=seed, limit=3000 if thorough else 300)
    scheds = [from_tlc(h, k) for k, h in enumerate(hists)]
    fhists, g2 = vlib.gen_schedules("C15", FAMILY, "SchedulerGen", "SchedulerGenFeat.cfg", num=200 if thorough else 40,
                                    depth=500, seed=seed, limit=1000 if thorough else 100)
    scheds += [from_tlc(h, k) for k, h in enumerate(fhists)]
    rnd = random_schedules(seed, 2400 if thorough else 260, thorough)
    fsch = feature_schedules(seed, 800 if thorough else 100)
    # stage 2+3
    vlib.conformance(o, FAMILY, "SchedulerTrace", "SchedulerTrace.cfg", "c15", scheds, tag="tlcgen", chunk=40)
    vlib.conformance(o, FAMILY, "SchedulerTrace", "SchedulerTrace.cfg", "c15", rnd, tag="random", chunk=40)
    vlib.conformance(o, FAMILY, "SchedulerTrace", "SchedulerTrace.cfg", "c15", fsch, tag="feat", chunk=40)
    # binding negative controls on recorded traces
    tr = vlib.split_traces(vlib.read_ndjson(vlib.workdir("C15") + "/trace_random.ndjson"))
    tr += vlib.split_traces(vlib.read_ndjson(vlib.workdir("C15") + "/trace_feat.ndjson"))
    if not o.violations:        # the controls corrupt ACCEPTED traces
        vlib.binding_selftest(o, FAMILY, "SchedulerTrace", "SchedulerTrace.cfg", tr, mutators())
    return vlib.finish(o, "model_checking", RULE,
                       ["fake clock (clockwork.FakeClock), or the synctest bubble's virtual clock when a fetch_att_on_block flag is on; the clock only moves when every goroutine of the scheduler is durably blocked (testing/synctest), i.e. beacon requests and subscribers take no time",
                        "'not early' is judged on the deadline the scheduler hands to its delay function (slot start + offset), as the property names it; the delay function itself returns at once; with a fetch_att_on_block flag on the attester duty does not use the delay function and is judged on the virtual instant of the subscriber call: not before slot start + 1/3 slot (+300 ms with fetch_att_on_block_with_delay), the documented fallback deadline",
                        "whether and when a head event starts the early FetchOnly is not part of the property (recorded, not judged in trace validation; the design spec transcribes it and checks once-per-slot / never after the trigger)",
                        "'active' = reported active, or activating in the resolved epoch, by a validators answer used for that epoch",
                        "trace validation does not prescribe how often/where the next epoch is resolved on an epoch's last slot, nor which of several missed slots the ticker still emits (order and not-before-start are checked)",
                        "beacon answers are consistent per epoch (one truth per schedule); reorg handling (HandleChainReorgEvent) is out of scope"])


def replay(path):
    rp = json.load(open(path))
    o = vlib.Outcome("C15", "quick", 0)
    vlib.conformance(o, FAMILY, rp["trace_module"], rp["trace_cfg"], rp["pkg"], [rp["schedule"]], tag="replay")
    for p, t in o.violations:
        log("replay: " + t)
    return 1 if o.violations else 0
