"""C03 - consensus validity and integrity: decide once, only a leader-proposed value, backed by a quorum of COMMITs."""
import vlib, qbft_common as qc
from vlib import log

RULE = ("as C02, with schedules aimed at C03: members that never obtain a proposal or obtain it late (pre-prepare "
        "justification cache path), compare failures (Definition.Compare errors -> compareFailureRound deviations), re-proposal "
        "of prepared values after round changes, adversarial DECIDED / ROUND-CHANGE justifications; the Decide callback's "
        "(value, round, qcommit) is logged verbatim and compared with the spec; DecideOnce, NonZero, LeaderProposed, Validity "
        "(no Byzantine member) and QuorumBacked are evaluated after every step")
COMBOS_Q = [(4, 0, []), (4, 1, [2]), (3, 2, []), (5, 3, []), (7, 1, [0, 4]), (6, 0, [])]
COMBOS_T = COMBOS_Q + [(4, 2, [0]), (4, 3, []), (5, 1, [3]), (6, 4, [1]), (7, 5, []), (3, 0, [])]


def run(tier, seed, pid="C03"):
    o = vlib.Outcome(pid, tier, seed)
    thorough = tier == "thorough"
    mc = [("QBFTMC_H3s.cfg", 900)] if not thorough else [("QBFTMC_H3s.cfg", 900), ("QBFTMC_H3q.cfg", 900), ("QBFTMC_H3r1.cfg", 1500)]
    for cfg, to in mc:
        r = vlib.tlc(pid, qc.FAMILY, "QBFTMC", cfg, timeout=to)
        vlib.require_mc_ok(r, cfg)
        o.add_mc(cfg, r)
    for cfg in (["QBFTMC_sim4cmp.cfg"] if not thorough else ["QBFTMC_sim4cmp.cfg", "QBFTMC_sim4.cfg"]):
        vlib.simulate_timeboxed(o, qc.FAMILY, "QBFTMC", cfg, 200 if thorough else 25, seed=seed, workers=8 if thorough else 4)
    gen = []
    for k, (inst, byz, inputs, cf) in enumerate([(1, "", "InputsB", ""), (0, "2", "InputsB", "1001")]
                                                + ([(2, "", "InputsA", "2"), (3, "0", "InputsC", "")] if thorough else [])):
        gen += qc.tlc_gen_schedules(pid, seed + k, dict(N=4, Inst=inst, Byz=byz, CompareFail=cf, Inputs=inputs,
                                                        MaxRound=3, MaxTimeouts=5, DupBudget=1, MaxByz=4, GenLen=70),
                                    num=40 if thorough else 25, depth=80, limit=400 if thorough else 80)
    vlib.conformance(o, qc.FAMILY, "QBFTTrace", qc.trace_cfg_of, "c02", gen, tag="tlcgen")
    combos = COMBOS_T if thorough else COMBOS_Q
    rnd = qc.random_schedules(seed, "c03a", combos, 40 if thorough else 5, 400 if thorough else 220,
                              inputs_mode="missing", ptimeout=8, pbyz=12)
    rnd += qc.random_schedules(seed, "c03b", combos[:6], 30 if thorough else 4, 400 if thorough else 220,
                               inputs_mode="any", ptimeout=8, pbyz=10, cfail_mode=True)
    vlib.conformance(o, qc.FAMILY, "QBFTTrace", qc.trace_cfg_of, "c02", rnd, tag="random", replay_of=qc.trace_to_schedule)
    vlib.conformance(o, qc.FAMILY, "QBFTTrace", qc.trace_cfg_of, "c02", qc.scenario_schedules(seed, "c03", 6 if thorough else 1),
                     tag="scenario", replay_of=qc.trace_to_schedule)
    # component tier: forged / replayed votes against the real consensus components (decisions must be leader-proposed
    # values backed by a quorum of genuine COMMITs); the liveness probe belongs to C04
    import conscluster
    conscluster.stage(o, tier, seed, probe_finding=False)
    tr = vlib.split_traces(vlib.read_ndjson(vlib.workdir(pid) + "/trace_random.ndjson"))
    vlib.binding_selftest(o, qc.FAMILY, "QBFTTrace", qc.trace_cfg_of, tr, qc.mutators())
    o.extra["decisions_observed"] = sum(1 for t in tr for e in t if e.get("ev") == "Deliver" and e.get("rule") in ("QC", "JD"))
    o.extra["decided_via_DECIDED_message"] = sum(1 for t in tr for e in t if e.get("ev") == "Deliver" and e.get("rule") == "JD")
    return vlib.finish(o, "model_checking", RULE,
                       ["the generic qbft.Run is driven through its own callbacks (no hook)",
                        "A1-A3 of QBFT.tla (duplicate-free ROUND-CHANGEs per source in justification lists, prepared fields only on ROUND-CHANGE, FIFO limit not reached)",
                        "Compare returns immediately (scripted nil/error); the compare-timeout arm is not exercised"])


def replay(path):
    return qc.replay("C03", path)
