"""GROWTH family "ExitFlow" - the distributed voluntary-exit flow through the Obol API: cmd/exit_sign.go, exit_fetch.go,
exit_broadcast.go, exit_delete.go, exit_list.go (driven through the real CLI, `cmd.New()`), app/obolapi/exit.go +
exit_model.go (request signing over the SSZ roots, aggregation of the partial signatures the API returns, verification of
the full exit) with testutil/obolapimock as the server side.

Not a registered check: `stage(o, tier, seed)` runs the family as a stage (the Outcome `o` collects coverage and
violations); `main(tier, seed)` is a stand-alone driver, `replay(path)` re-runs a replay file."""
import json, os, re, time
import vlib
from vlib import log

FAMILY = "ExitFlow"
PKG = "exitflow"
TRACE = "ExitFlowTrace"
WORKERS = int(os.environ.get("VERIF_TLC_WORKERS", "0")) or None

RULE = ("ExitFlow family: schedules = command lines of the operators (exit sign with --validator-public-key / --validator-index / "
        "both / --all and an exit epoch, exit fetch, exit broadcast from the API / --exit-from-file / --exit-from-dir, exit delete, "
        "exit active-validator-list), which command's pending request (to the API or to the beacon node) is let through next, faults "
        "on requests (never served / served but reported failed, codes 404 409 500 503), tampering with full-exit responses (blank, "
        "compact, duplicate, reordered, junk, another epoch's partial, other epoch / index), direct requests of a Byzantine operator "
        "and of an outsider (other share index, foreign signer, replayed partials, other epoch / validator, no authorization, unknown "
        "lock), planted exit files (too few shares, another validator's exit), status changes on the beacon chain; generated (a) by "
        "TLC simulation of ExitFlowGen (6 configurations) and (b) by a seeded random generator of scenarios around the threshold. "
        "Executed on the real CLI commands + app/obolapi.Client against testutil/obolapimock and a beacon front over loopback HTTP, "
        "requests gated one at a time (deterministic interleaving); every trace validated by ExitFlowTrace.tla (linear)")
ASSUMPTIONS = [
    "cryptography is abstract in the spec; the executor names signatures by observation functions of its own (its own SSZ "
    "merkleisation for the request roots, the EIP-7044 exit domain computed from the network's Capella fork version and the "
    "genesis validators root read off the wire, tbls.Verify against the lock's public shares / group keys)",
    "an operator runs one command at a time; requests are interleaved at request granularity (the mock serialises them under one "
    "mutex); requests to static beacon endpoints (spec, genesis, fork schedule, node version) are not gated",
    "the beacon node answers the validators query faithfully from its status table (ids and statuses filters applied)",
    "validator public keys are always written in lower case with 0x (the mock keys its store by the raw string)",
    "`exit broadcast --all` that gathers no exit at all asks the beacon node for the whole state: its outcome is left open",
    "testutil/obolapimock is the server side AS CODED (deviation D1 is switched on when the directed probe confirms it)",
]
FINDINGS = {
    "D1": ("GROW-EXITFLOW-repost-counts-twice",
           "testutil/obolapimock stores a re-posted partial exit again: one share counts several times towards the threshold, the "
           "full exit is handed out before threshold many DISTINCT shares signed (the client then refuses it: duplicate partial "
           "signature), a validator's slots fill up with duplicates so that later partials are silently dropped with 201, and "
           "`exit delete` removes one copy only -- after a retried `exit sign` the cluster can no longer aggregate the exit"),
}

SHAPES = [(4, 3), (3, 2), (4, 3), (5, 4), (3, 3)]
STATUSES = ["active_ongoing", "pending_queued", "exited_unslashed", "none", "active_exiting", "pending_initialized"]


def trace_cfg(n, t, nv, repost):
    name = "ExitFlowTrace_%d_%d_%d_%s.cfg" % (n, t, nv, "ascoded" if repost else "strict")
    txt = ("SPECIFICATION TraceSpec\nCONSTANTS\n N = %d\n T = %d\n NV = %d\n Cmds = {%s}\n RepostAppends = %s\n Defect = \"none\"\n"
           "CONSTRAINT Mark\nPOSTCONDITION Report\nCHECK_DEADLOCK FALSE\n"
           % (n, t, nv, ", ".join(str(i) for i in range(1, 41)), "TRUE" if repost else "FALSE"))
    return (name, txt)


_dev = {"D1": True}      # set by the probe


def cfg_strict(tr):
    r = tr[0]
    return trace_cfg(r["n"], r["t"], r["nv"], False)


def cfg_ascoded(tr):
    r = tr[0]
    return trace_cfg(r["n"], r["t"], r["nv"], True)


def cfg_of(tr):
    return cfg_ascoded(tr) if _dev["D1"] else cfg_strict(tr)


# ----------------------------------------------------------------------------------------------------------------------
# (a) histories of ExitFlowGen -> schedules
# ----------------------------------------------------------------------------------------------------------------------
def from_hist(h):
    out = [{"ev": "Cfg", "n": h["n"], "t": h["t"], "nv": h["nv"], "st": h["st"]}]
    for e in h["steps"]:
        if e["ev"] == "Byz":
            out.append({"ev": "Byz", "req": {"POST": "post", "GET": "get", "DELETE": "del"}[e["req"]], "share": e["share"], "key": e["key"],
                        "v": e["v"], "noauth": e["noauth"], "lock": e["lock"], "blobs": e["blobs"]})
        else:
            out.append(e)
    return out


# ----------------------------------------------------------------------------------------------------------------------
# (b) seeded random scenarios
# ----------------------------------------------------------------------------------------------------------------------
class Scn:
    """builds one schedule; keeps a rough idea of which commands may still have requests pending (the executor ignores a Step
    for a command that has returned and a Start for an operator that is busy)"""
    def __init__(self, r, n, t, nv, st):
        self.r, self.n, self.t, self.nv = r, n, t, nv
        self.s = [{"ev": "Cfg", "n": n, "t": t, "nv": nv, "st": st}]
        self.c = 0
        self.open = {}      # c -> steps it may still need

    def start(self, op, kind, run=True, **kw):
        if self.c >= 38:
            return None
        self.c += 1
        d = {"ev": "Start", "c": self.c, "op": op, "kind": kind, "sel": kw.get("sel", "pk"), "v": kw.get("v", 0), "iv": kw.get("iv", 0),
             "e": kw.get("e", 0), "src": kw.get("src", "api"), "fv": kw.get("fv", 0)}
        self.s.append(d)
        self.open[self.c] = 2 + 2 * self.nv
        if run:
            self.finish(self.c)
        return self.c

    def step(self, c, **kw):
        self.s.append(dict({"ev": "Step", "c": c}, **kw))
        self.open[c] = self.open.get(c, 0) - 1
        if self.open[c] <= 0:
            self.open.pop(c, None)

    def finish(self, c):
        while c in self.open:
            self.step(c, **self.noise())

    def noise(self, p=0.06):
        r = self.r
        x = r.random()
        if x < p:
            return {"f": r.choice(["pre", "post"]), "code": r.choice([500, 500, 404, 409, 503])}
        if x < 2 * p:
            return {"tamper": {"kind": r.choice(["blank", "drop", "droplast", "dup", "rev", "rot", "junk", "epoch", "index", "other"])}}
        return {}

    def byz(self, b):
        r, n, nv = self.r, self.n, self.nv
        kind = r.choice(["post", "post", "post", "get", "del", "del"])
        share = r.choice([b, b, b, r.randint(1, n), 0, n + 1])
        key = r.choice([b, b, b, 0, -1])
        d = {"ev": "Byz", "req": kind, "share": share, "key": key, "v": r.choice([1, 1, r.randint(1, nv), 0])}
        if r.random() < 0.08:
            d["lock"] = False
        if r.random() < 0.08:
            d["noauth"] = True
        if r.random() < 0.1:
            d["sshare"] = r.randint(1, n)
        if kind == "post":
            blobs = []
            for _ in range(r.choice([1, 1, 1, 2, 0])):
                v = r.choice([1, 1, r.randint(1, nv), 0])
                sv = v if r.random() < 0.8 else r.choice([r.randint(1, nv), 0])
                sk = r.choice([b, b, b, share, r.randint(1, n), 0])
                blobs.append({"v": v, "e": r.choice([1, 1, 2, 3]), "iv": r.choice([v, v, v, r.randint(1, nv), 0, -1]), "sv": sv, "sk": sk})
            d["blobs"] = blobs
        self.s.append(d)


def scenario(r, big):
    n, t = r.choice(SHAPES)
    flavour = r.choice(["threshold", "threshold", "interleave", "all", "files", "selectors", "epochs", "chaos", "tamper", "tamper", "squat", "retry",
                        "mixdir", "mixdir"])
    nv = r.choice([2, 3]) if flavour == "mixdir" else r.choice([1, 1, 2, 2, 3])
    st = [r.choice(["active_ongoing"] * 4 + STATUSES) for _ in range(nv)]
    if flavour == "mixdir":
        st = [r.choice(["active_ongoing"] * 5 + ["exited_unslashed"]) for _ in range(nv)]
    sc = Scn(r, n, t, nv, st)
    byz = r.choice([0, 0, n, n, r.randint(1, n)])
    honest = [o for o in range(1, n + 1) if o != byz]
    v, e = r.randint(1, nv), r.choice([1, 1, 2])

    def sign(op, **kw):
        sel = kw.pop("sel", r.choice(["pk", "pk", "pk", "idx", "both"]))
        vv = kw.pop("v", v)
        return sc.start(op, "sign", sel=sel, v=vv, iv=kw.pop("iv", vv), e=kw.pop("e", e), **kw)

    def extras():
        x = r.random()
        if byz and x < 0.25:
            sc.byz(byz)
        elif x < 0.3:
            sc.s.append({"ev": "Status", "v": r.randint(1, nv), "st": r.choice(STATUSES)})
        elif x < 0.36:
            sv = r.randint(1, nv)
            k = r.choice([t, t, t - 1, n, 1])
            sc.s.append({"ev": "Plant", "op": r.choice(honest), "v": r.randint(1, nv), "sv": sv, "shares": sorted(r.sample(range(1, n + 1), max(1, k))),
                         "e": r.choice([1, 2]), "iv": r.choice([sv, sv, r.randint(1, nv), 0])})

    if flavour in ("threshold", "epochs", "chaos"):
        # operators sign one after the other; somebody fetches / broadcasts before, at and after the threshold; re-posts, deletes
        order = honest[:]
        r.shuffle(order)
        for k, op in enumerate(order):
            if flavour == "epochs" and r.random() < 0.35:
                sign(op, e=3 - e if e < 3 else 1)
            else:
                sign(op)
            if r.random() < 0.3:
                sign(op)                                   # the operator runs `exit sign` again
            if r.random() < 0.2:
                sc.start(op, "delete", sel=r.choice(["pk", "all"]), v=v)
                if r.random() < 0.6:
                    sign(op)
            if r.random() < 0.5:
                sc.start(r.choice(honest), r.choice(["fetch", "bcast", "bcast"]), sel=r.choice(["pk", "pk", "all"]), v=v)
            extras()
        who = r.choice(honest)
        sc.start(who, "fetch", sel=r.choice(["pk", "all"]), v=v)
        sc.start(who, "bcast", sel="pk", v=v, src=r.choice(["api", "file"]), fv=v)
        if r.random() < 0.5:
            sc.s.append({"ev": "Status", "v": v, "st": r.choice(["active_exiting", "exited_unslashed"])})
            sc.start(r.choice(honest), "bcast", sel=r.choice(["pk", "all"]), v=v)
    elif flavour == "mixdir":
        # a directory with exits that verify and exits that do not: `exit broadcast --all --exit-from-dir` must not submit any
        # of them unless all (active ones) verify -- whatever the order the validators come in (Go map order)
        who = r.choice(honest)
        bad = r.sample(range(1, nv + 1), r.choice([1, 1, 1, 0, 2]) if nv > 2 else r.choice([1, 1, 0]))
        for x in range(1, nv + 1):
            if x in bad:
                sv = r.choice([x, x, x % nv + 1])
                sh = sorted(r.sample(range(1, n + 1), t - 1 if sv == x else t))
            else:
                sv, sh = x, sorted(r.sample(range(1, n + 1), r.choice([t, n])))
            sc.s.append({"ev": "Plant", "op": who, "v": x, "sv": sv, "shares": sh or [1], "e": e, "iv": sv})
        sc.start(who, "bcast", sel="all", src="dir")
        if r.random() < 0.5:
            sc.s.append({"ev": "Status", "v": r.choice(bad) if bad else 1, "st": "exited_unslashed"})
            sc.start(who, "bcast", sel="all", src="dir")
    elif flavour == "tamper":
        # enough clean partials, then every way a faulty API could hand them out
        signers = honest[:r.choice([t, t, min(len(honest), t + 1)])]
        for op in signers:
            sc.start(op, "sign", run=False, sel="pk", v=v, iv=v, e=e)
            sc.step(sc.c)
            sc.step(sc.c)
            sc.open.pop(sc.c, None)
        kinds = ["blank", "drop", "droplast", "dup", "rev", "rot", "junk", "epoch", "index", "other"]
        r.shuffle(kinds)
        for kind in kinds[:r.randint(3, 7)]:
            who = r.choice(honest)
            c = sc.start(who, r.choice(["fetch", "bcast"]), run=False, sel="pk", v=v)
            if c:
                sc.step(c, tamper={"kind": kind})
                sc.finish(c)
        sc.start(r.choice(honest), "bcast", sel="pk", v=v)
    elif flavour == "squat" and byz:
        # the Byzantine operator is first with a partial over another exit message; the honest ones are refused until it deletes
        sc.s.append({"ev": "Byz", "req": "post", "share": byz, "key": byz, "v": v,
                     "blobs": [{"v": v, "e": 3 - e, "iv": r.choice([v, v, 0]), "sv": v, "sk": byz}]})
        for op in honest[:t]:
            sign(op, sel="pk")
        sc.start(honest[0], "bcast", sel="pk", v=v)
        sc.s.append({"ev": "Byz", "req": "del", "share": r.choice([byz, byz, honest[0]]), "key": byz, "v": v})
        for op in honest[:t]:
            sign(op, sel="pk")
            if r.random() < 0.3:
                sc.byz(byz)
        sc.start(honest[0], "bcast", sel="pk", v=v)
    elif flavour in ("retry", "squat"):
        # a request is served but the operator is told it failed: it runs the command again
        for op in honest:
            c = sc.start(op, "sign", run=False, sel="pk", v=v, iv=v, e=e)
            sc.step(c)
            if r.random() < 0.5:
                sc.step(c, f=r.choice(["post", "post", "pre"]), code=r.choice([500, 503, 409]))
                sc.finish(c)
                sign(op, sel="pk")
            else:
                sc.finish(c)
            if r.random() < 0.3:
                sc.start(op, "delete", sel="pk", v=v)
                sign(op, sel="pk")
        who = r.choice(honest)
        sc.start(who, "fetch", sel="pk", v=v)
        sc.start(who, "bcast", sel="pk", v=v)
    elif flavour == "interleave":
        # commands of several operators in flight at the same time, requests let through in a random order
        ids = []
        for op in honest:
            kind = r.choice(["sign", "sign", "sign", "fetch", "bcast", "delete"])
            if kind == "sign":
                ids.append(sc.start(op, "sign", run=False, sel=r.choice(["pk", "all", "both", "idx"]), v=v, iv=v, e=e))
            else:
                ids.append(sc.start(op, kind, run=False, sel=r.choice(["pk", "all"]), v=v))
        for _ in range(3):
            for op in honest:
                if r.random() < 0.5:
                    continue
                live = [c for c in ids if c in sc.open]
                for _ in range(r.randint(1, 4)):
                    if live:
                        sc.step(r.choice(live), **sc.noise(0.1))
                    extras()
            for c in list(ids):
                if c not in sc.open:
                    ids.remove(c)
            # whoever has returned starts the next command
            busy = {sc.s[i]["op"] for i in range(len(sc.s)) if sc.s[i]["ev"] == "Start" and sc.s[i]["c"] in sc.open}
            for op in honest:
                if op not in busy and r.random() < 0.7:
                    kind = r.choice(["sign", "fetch", "bcast", "delete", "fetch", "bcast"])
                    ids.append(sc.start(op, kind, run=False, sel=r.choice(["pk", "pk", "all"]), v=v, iv=v, e=e))
        for c in list(sc.open):
            sc.finish(c)
    elif flavour == "all":
        for op in honest:
            sc.start(op, "sign", sel=r.choice(["all", "all", "pk"]), v=v, iv=v, e=e)
            extras()
        who = r.choice(honest)
        sc.start(who, "list")
        sc.start(who, "fetch", sel="all")
        sc.start(who, "bcast", sel="all", src=r.choice(["api", "dir"]))
        sc.start(r.choice(honest), "delete", sel="all")
        sc.start(r.choice(honest), "fetch", sel="all")
        sc.start(r.choice(honest), "bcast", sel="all")
    elif flavour == "files":
        for op in honest[:t + r.choice([0, 0, -1, 1])]:
            sign(op, sel="pk")
        who = r.choice(honest)
        for _ in range(r.randint(1, 3)):
            extras()
            sv = r.randint(1, nv)
            sc.s.append({"ev": "Plant", "op": who, "v": r.randint(1, nv), "sv": sv, "shares": sorted(r.sample(range(1, n + 1), r.choice([t, t - 1, n]) or 1)),
                         "e": r.choice([1, 2]), "iv": r.choice([sv, sv, r.randint(1, nv), 0])})
            sc.start(who, "bcast", sel=r.choice(["pk", "all"]), v=r.randint(1, nv), src=r.choice(["file", "dir"]), fv=r.randint(1, nv))
        sc.start(who, "fetch", sel=r.choice(["pk", "all"]), v=v)
        sc.start(who, "bcast", sel=r.choice(["pk", "all"]), v=v, src=r.choice(["file", "dir"]), fv=r.randint(1, nv))
    else:   # selectors
        for op in honest:
            sel = r.choice(["pk", "idx", "both", "all"])
            sc.start(op, "sign", sel=sel, v=r.choice([v, v, 0]), iv=r.choice([v, v, r.randint(1, nv), 0, -1]), e=e)
            extras()
        who = r.choice(honest)
        sc.start(who, "list")
        sc.start(who, "fetch", sel="pk", v=r.choice([v, 0]))
        sc.start(who, "bcast", sel="pk", v=r.choice([v, 0]))
        sc.start(who, "delete", sel="pk", v=r.choice([v, 0]))
    return sc.s


def random_schedules(seed, num, big):
    r = vlib.rng(seed, "exitflow-rnd")
    return [scenario(r, big) for _ in range(num)]


# ----------------------------------------------------------------------------------------------------------------------
# directed probe of deviation D1
# ----------------------------------------------------------------------------------------------------------------------
def probe_D1():
    s = [{"ev": "Cfg", "n": 3, "t": 2, "nv": 1, "st": ["active_ongoing"]}]
    c = 0
    for op, kind in ((1, "sign"), (1, "sign"), (2, "fetch"), (2, "sign"), (3, "sign"), (3, "bcast"), (1, "delete"), (3, "fetch")):
        c += 1
        s.append({"ev": "Start", "c": c, "op": op, "kind": kind, "sel": "pk", "v": 1, "iv": 1, "e": 1, "src": "api", "fv": 0})
        s += [{"ev": "Step", "c": c}] * 4
    return s


def confirm_deviations(o):
    """The directed probe, executed twice: rejected by the contract cfg and accepted by the as-coded cfg -> D1 is in the tree
    (KNOWN-FINDING, the bulk is validated as coded); accepted by the contract -> the deviation is gone; rejected by both -> the
    regular violation path."""
    pr = probe_D1()
    traces, sids, wall = vlib.run_schedules(o.pid, PKG, "TestExec", [pr, pr], tag="probe")
    vs = vlib.validate_traces(o.pid, FAMILY, TRACE, cfg_strict, traces)
    vd = vlib.validate_traces(o.pid, FAMILY, TRACE, cfg_ascoded, traces)
    o.schedules += 2
    o.traces += len(traces)
    o.trace_events += sum(len(t) for t in traces)
    o.trace_states += vs.states + vd.states
    if len(vs.rejected) not in (0, len(traces)):
        raise vlib.Infra("probe D1: the two executions of one schedule got different verdicts")
    if vs.rejected and not vd.rejected:
        _dev["D1"] = True
        o.known.append((FINDINGS["D1"][0], FINDINGS["D1"][1]))
    elif vs.rejected:
        _dev["D1"] = False
        vlib.conformance(o, FAMILY, TRACE, cfg_strict, PKG, [pr], tag="probe_D1")
        if not o.violations:
            raise vlib.Infra("probe D1 rejected by the contract and by the as-coded cfg, but not reproduced")
    else:
        _dev["D1"] = False
        o.notes.append("deviation D1 (%s) not observed on this tree: the bulk is validated against the contract" % FINDINGS["D1"][0])
    o.extra["exitflow_deviations_confirmed"] = [FINDINGS["D1"][0]] if _dev["D1"] else []
    log("[%s] ExitFlow probe: %d traces in %.1fs; D1 %s" % (o.pid, len(traces), wall, "confirmed" if _dev["D1"] else "not observed"))


# ----------------------------------------------------------------------------------------------------------------------
# binding self-tests
# ----------------------------------------------------------------------------------------------------------------------
def mutators():
    def first(t, pred):
        for k, e in enumerate(t):
            if pred(e):
                return k
        return None

    def api_status(t):
        k = first(t, lambda e: e["ev"] == "Api" and e["op"] > 0 and e["m"] == "POST" and e["f"] == "none" and e["status"] == 201)
        if k is None:
            return None
        t[k]["status"] = t[k]["code"] = 400
        return t

    def signer_share(t):
        k = first(t, lambda e: e["ev"] == "Api" and e["op"] > 0 and e["m"] == "POST" and e["blobs"])
        if k is None:
            return None
        t[k]["blobs"][0]["k"] = t[k]["blobs"][0]["k"] % t[0]["n"] + 1
        return t

    def req_sig(t):
        k = first(t, lambda e: e["ev"] == "Api" and e["op"] > 0 and e["by"] == e["op"])
        if k is None:
            return None
        t[k]["by"] = 0
        return t

    def other_epoch(t):
        k = first(t, lambda e: e["ev"] == "Api" and e["op"] > 0 and e["m"] == "POST" and e["blobs"])
        if k is None:
            return None
        t[k]["blobs"][0]["e"] = 3 - t[k]["blobs"][0]["e"] if t[k]["blobs"][0]["e"] in (1, 2) else 1
        return t

    def other_index(t):
        k = first(t, lambda e: e["ev"] == "Api" and e["op"] > 0 and e["m"] == "POST" and e["blobs"])
        if k is None:
            return None
        t[k]["blobs"][0]["i"] = 0
        return t

    def result(t):
        k = first(t, lambda e: e["ev"] == "Done" and e["ok"])
        if k is None:
            return None
        t[k]["ok"] = False
        return t

    def failed_but_ok(t):
        k = first(t, lambda e: e["ev"] == "Done" and not e["ok"])
        if k is None or any(e["ev"] == "Start" and e["c"] == t[k]["c"] and e["kind"] == "bcast" and e["sel"] == "all" for e in t):
            return None
        t[k]["ok"] = True
        return t

    def file_missing(t):
        k = first(t, lambda e: e["ev"] == "Done" and e["files"])
        if k is None:
            return None
        t[k]["files"] = t[k]["files"][1:]
        return t

    def file_bad(t):
        k = first(t, lambda e: e["ev"] == "Done" and any(f["exit"]["by"] == f["v"] for f in e["files"]))
        if k is None:
            return None
        for f in t[k]["files"]:
            if f["exit"]["by"] == f["v"]:
                f["exit"]["by"] = 0
                break
        return t

    def file_on_failure(t):
        for k, e in enumerate(t):
            if e["ev"] == "Done" and not e["ok"] and not e["files"]:
                st = [x for x in t if x["ev"] == "Start" and x["c"] == e["c"]]
                if st and st[0]["kind"] == "fetch" and st[0]["sel"] == "pk" and st[0]["v"] >= 1:
                    e["files"] = [{"v": st[0]["v"], "exit": {"e": 1, "i": st[0]["v"], "by": st[0]["v"]}}]
                    return t
        return None

    def submit_unverified(t):
        k = first(t, lambda e: e["ev"] == "Bn" and e["q"] == "submit")
        if k is None:
            return None
        t[k]["exit"]["by"] = 0
        return t

    def submit_dropped(t):
        k = first(t, lambda e: e["ev"] == "Bn" and e["q"] == "submit")
        if k is None:
            return None
        del t[k]
        return t

    def request_dropped(t):
        k = first(t, lambda e: e["ev"] == "Api" and e["op"] > 0)
        if k is None:
            return None
        del t[k]
        return t

    def raw_short(t):
        k = first(t, lambda e: e["ev"] == "Api" and "raw" in e and len(e["raw"]["sigs"]) >= 2)
        if k is None:
            return None
        t[k]["raw"]["sigs"] = t[k]["raw"]["sigs"][1:]
        return t

    def query_filter(t):
        k = first(t, lambda e: e["ev"] == "Bn" and e["q"] == "vals" and e["sts"])
        if k is None:
            return None
        t[k]["sts"] = []
        return t

    def printed(t):
        k = first(t, lambda e: e["ev"] == "Done" and e.get("printed"))
        if k is None:
            return None
        t[k]["printed"] = t[k]["printed"][1:]
        return t

    def byz_accepted(t):
        k = first(t, lambda e: e["ev"] == "Api" and e["op"] == 0 and e["status"] >= 400)
        if k is None:
            return None
        t[k]["status"] = t[k]["code"] = 200 if t[k]["m"] != "POST" else 201
        return t

    def threshold_early(t):
        k = first(t, lambda e: e["ev"] == "Api" and e["m"] == "GET" and e["f"] == "none" and e["status"] == 401)
        if k is None:
            return None
        t[k]["status"] = t[k]["code"] = 404
        return t

    return [("a stored partial reported as refused", api_status), ("partial signature by another share", signer_share),
            ("request signed by nobody of the lock", req_sig), ("partial over the other epoch", other_epoch),
            ("partial over another validator index", other_index), ("successful command reported failed", result),
            ("failed command reported successful", failed_but_ok), ("a fetched exit file missing", file_missing),
            ("a fetched exit that does not verify", file_bad), ("exit file written by a failed fetch", file_on_failure),
            ("an exit that does not verify is submitted", submit_unverified), ("a submission not observed", submit_dropped),
            ("a request of a command not observed", request_dropped), ("full-exit response lacks a stored partial", raw_short),
            ("beacon query without its status filter", query_filter), ("an active validator not listed", printed),
            ("a refused direct request reported as served", byz_accepted), ("too few partials reported as none", threshold_early)]


# ----------------------------------------------------------------------------------------------------------------------
CONTROLS = (("ExitFlowMC_ctl_noAggVerify.cfg", "FetchWritesGood", "the client does not verify the aggregate"),
            ("ExitFlowMC_ctl_posTrust.cfg", "Robust", "the client takes a partial signature's position for its share index"),
            ("ExitFlowMC_ctl_noReqSig.cfg", "StoreAuthentic", "the API does not check the request signature"),
            ("ExitFlowMC_ctl_delNoAuth.cfg", "MCDeleteOnlyOwn", "the API deletes for anybody"),
            ("ExitFlowMC_ctl_noMatch.cfg", "StoreSameMsg", "the API stores partials over different exit messages side by side"),
            ("ExitFlowMC_ctl_bcastNoVerify.cfg", "PoolSound", "exit broadcast does not verify what it read from a file"),
            ("ExitFlowMC_ctl_D1_distinct.cfg", "StoreDistinct", "D1 as coded: a re-posted partial is stored again"),
            ("ExitFlowMC_ctl_D1_enough.cfg", "EnoughIsEnough", "D1 as coded: threshold many distinct shares stored, no full exit"),
            ("ExitFlowMC_ctl_D1_threshold.cfg", "AnsweredOnlyAtThreshold", "D1 as coded: full-exit request answered below the threshold"),
            ("ExitFlowMC_ctl_live_D1.cfg", "temporal", "D1 as coded, liveness: a retried exit sign and the exit never reaches the beacon node"))
QUICK_MC = ["ExitFlowMC_core.cfg", "ExitFlowMC_strict.cfg", "ExitFlowMC_epoch.cfg", "ExitFlowMC_all.cfg", "ExitFlowMC_file.cfg",
            "ExitFlowMC_sel.cfg", "ExitFlowMC_out.cfg", "ExitFlowMC_four.cfg", "ExitFlowMC_live.cfg"]
THOROUGH_MC = QUICK_MC + ["ExitFlowMC_core_thorough.cfg", "ExitFlowMC_strict_thorough.cfg", "ExitFlowMC_all_thorough.cfg", "ExitFlowMC_sel_thorough.cfg"]
GEN = ["core", "small", "epoch", "all", "file", "sel"]


def design_check(o, tier, seed):
    """Design check, the controls that MUST be violated and the schedule generation: independent TLC runs side by side."""
    from concurrent.futures import ThreadPoolExecutor
    thorough = tier == "thorough"
    mains = THOROUGH_MC if thorough else QUICK_MC
    controls = CONTROLS
    if os.environ.get("VERIF_EXITFLOW_NOMC"):      # mutation experiments: the design check does not depend on the tree
        mains, controls = [], ()
    n = 1200 if thorough else 120
    jobs = [("ExitFlowGen", "ExitFlowGen_%s.cfg" % g, dict(simulate="num=%d" % n, depth=100, seed=seed + k, workers=1)) for k, g in enumerate(GEN)]
    jobs += [("ExitFlowMC", c, dict(workers=WORKERS or (4 if thorough else 2))) for c in mains]
    jobs += [("ExitFlowMC", c, dict(workers=1)) for c, _, _ in controls]
    dirs = [vlib.scratch(o.pid, FAMILY) for _ in jobs]
    ex = ThreadPoolExecutor(max_workers=8 if thorough else 10)
    futs = [ex.submit(vlib.tlc, o.pid, FAMILY, j[0], j[1], timeout=1700, sdir=d, **j[2]) for j, d in zip(jobs, dirs)]
    hists = []
    for g, f in zip(GEN, futs[:len(GEN)]):
        r = f.result()
        if r.error or r.timed_out or (r.violation and r.violation != "deadlock"):
            raise vlib.Infra("schedule generation failed: %s\n%s" % (r.summary(), r.out[-2000:]))
        seen, mine = set(), []
        for p in vlib.tagged_prints(r, "SCHED"):
            if p not in seen:
                seen.add(p)
                mine.append(json.loads(p))
        if not mine:
            raise vlib.Infra("schedule generation %s: no histories" % g)
        hists.append(mine)

    def join():
        res = [f.result() for f in futs[len(GEN):]]
        ex.shutdown()
        for cfg, r in zip(mains, res):
            vlib.require_mc_ok(r, cfg)
            o.add_mc("ExitFlow/" + cfg[:-4], r)
        for (cfg, inv, what), r in zip(controls, res[len(mains):]):
            got = r.violation or ("temporal" if "Temporal properties were violated" in r.out or "Temporal property" in r.out else None)
            if got != inv:
                raise vlib.Infra("design-spec control failed: '%s' not caught by %s: %s" % (what, inv, r.summary()))
            o.selftests.append({"control": "ExitFlow spec variant '%s' violates %s" % (what, inv), "rejected_as_required": True})
    return hists, join


def stage(o, tier, seed):
    """Run the ExitFlow family as a stage of a check."""
    t0 = time.time()
    thorough = tier == "thorough"
    hists, join_design = design_check(o, tier, seed)
    confirm_deviations(o)
    r = vlib.rng(seed, "exitflow-gen")
    gen = []
    per = 500 if thorough else 40
    for hs in hists:
        r.shuffle(hs)
        gen += [from_hist(h) for h in hs[:per]]
    rnd = random_schedules(seed, 3000 if thorough else 330, thorough)
    o.extra["exitflow_histories_by_tlc"] = len(gen)
    kw = dict(chunk=120, exec_timeout=1500, tv_timeout=1500, env={"VERIF_EXITFLOW_PAR": "6"})
    vlib.conformance(o, FAMILY, TRACE, cfg_of, PKG, gen, tag="exitgen", **kw)
    vlib.conformance(o, FAMILY, TRACE, cfg_of, PKG, rnd, tag="exitrnd", **kw)
    join_design()
    tr = []
    for tag in ("exitgen", "exitrnd"):
        tr += vlib.split_traces(vlib.read_ndjson(os.path.join(vlib.workdir(o.pid), "trace_%s.ndjson" % tag)))
    if not o.violations:
        ms = mutators()
        nself = len(o.selftests)
        vlib.binding_selftest(o, FAMILY, TRACE, cfg_of, tr, ms, candidates=6)
        if len(o.selftests) - nself < len(ms):
            raise vlib.Infra("ExitFlow binding self-test: some negative control found no applicable trace")
    ev = [e for t in tr for e in t]
    starts = {}
    for e in ev:
        if e["ev"] == "Start":
            starts[e["kind"]] = starts.get(e["kind"], 0) + 1
    o.extra["exitflow_commands"] = starts
    o.extra["exitflow_api_requests"] = sum(1 for e in ev if e["ev"] == "Api")
    o.extra["exitflow_direct_requests"] = sum(1 for e in ev if e["ev"] == "Api" and e["op"] == 0)
    o.extra["exitflow_full_exits_fetched"] = sum(1 for e in ev if e["ev"] == "Api" and e["m"] == "GET" and e.get("status") == 200)
    o.extra["exitflow_tampered_responses"] = sum(1 for e in ev if e["ev"] == "Api" and "raw" in e and e.get("resp") != e["raw"])
    o.extra["exitflow_faults"] = sum(1 for e in ev if e["ev"] in ("Api", "Bn") and e.get("f") not in (None, "none"))
    o.extra["exitflow_exits_submitted"] = sum(1 for e in ev if e["ev"] == "Bn" and e["q"] == "submit" and e["f"] == "none")
    o.extra["exitflow_commands_ok"] = sum(1 for e in ev if e["ev"] == "Done" and e["ok"])
    o.extra["exitflow_commands_failed"] = sum(1 for e in ev if e["ev"] == "Done" and not e["ok"])
    if not o.violations and (o.extra["exitflow_exits_submitted"] < 5 or o.extra["exitflow_full_exits_fetched"] < 10):
        raise vlib.Infra("vacuous ExitFlow run: %s" % {k: v for k, v in o.extra.items() if k.startswith("exitflow_")})
    log("[%s] ExitFlow stage: %d TLC histories + %d random schedules -> %d traces, commands %s, %d API requests (%d direct, %d full exits, "
        "%d tampered), %d faults, %d exits submitted, %.0fs"
        % (o.pid, len(gen), len(rnd), len(tr), starts, o.extra["exitflow_api_requests"], o.extra["exitflow_direct_requests"],
           o.extra["exitflow_full_exits_fetched"], o.extra["exitflow_tampered_responses"], o.extra["exitflow_faults"],
           o.extra["exitflow_exits_submitted"], time.time() - t0))


def main(tier="quick", seed=1, pid="GEXITFLOW"):
    """Stand-alone driver (the evidence file is written by checks/grow_all.py when the family is registered)."""
    vlib.workdir(pid, fresh=True)
    o = vlib.Outcome(pid, tier, seed)
    try:
        stage(o, tier, int(seed))
    except vlib.Infra as e:
        log("INFRA: %s" % e)
        return 2
    for fid, txt in o.known:
        log("KNOWN-FINDING: property=%s %s: %s" % (pid, fid, txt))
    for path, txt in o.violations:
        log("VIOLATION property=%s replay=%s" % (pid, path))
        log("  " + txt)
    if o.violations:
        return 1
    log("[%s] OK tier=%s seed=%s: %d MC states, %d traces validated, %d self-test controls, %.0fs"
        % (pid, tier, seed, o.states, o.traces, len(o.selftests), time.time() - o.t0))
    return 0


def replay(path):
    rp = json.load(open(path))
    o = vlib.Outcome(rp.get("property", "GEXITFLOW"), "quick", 0)
    vlib.conformance(o, FAMILY, rp["trace_module"], cfg_of, rp["pkg"], [rp["schedule"]], tag="replay")
    for p, t in o.violations:
        log("replay: " + t)
    return 1 if o.violations else 0


if __name__ == "__main__":
    import sys
    sys.exit(main(*(sys.argv[1:3] or ["quick", 1])))
