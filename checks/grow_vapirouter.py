"""GROWTH family "VapiRouter" - the HTTP layer of the validator API (core/validatorapi/router.go): NewRouter's table of
intercepted endpoints versus the reverse proxy, wrap (content type, body, error / response writing), the per-endpoint handler
functions (path / query / header / body parsing per fork in JSON and SSZ, response construction with version / blinded /
value headers and metadata), proxy and the events handler.

A transcribed case analysis: specs/VapiRouter holds the routing table as data and the request as an abstract record; TLC
enumerates request shapes x ONE alteration (VapiRouterGen); this module gives every case its literal strings (seeded); the
executor (harness/vapirouter) sends it as a real HTTP request to the real router served by httptest.Server over a scripted
Handler and a scripted upstream and logs what the Handler / Handler.Proxy / the upstream saw and what the client got;
VapiRouterTrace.tla validates every trace.

`stage(o, tier, seed)` runs the family on an Outcome (./check --grow vapirouter); `main(tier, seed)` is a stand-alone driver,
`replay(path)` re-runs a replay file."""
import copy, json, os, posixpath, time
from urllib.parse import quote
import vlib
from vlib import log

FAMILY = "VapiRouter"
PKG = "vapirouter"
TRACE = "VapiRouterTrace"
TCFG = "VapiRouterTrace.cfg"
STRICT = "VapiRouterTrace_strict.cfg"
FINDING = "GROW-VAPIROUTER-client-fault-500"
FINDING2 = "GROW-VAPIROUTER-upstream-status-500"
# trace configuration by (client faults as coded?, upstream status as coded?)
CFGS = {(True, True): TCFG, (False, False): STRICT, (False, True): "VapiRouterTrace_fixM.cfg", (True, False): "VapiRouterTrace_fixA.cfg"}

RULE = ("VapiRouter family: cases = every entry of NewRouter's table (every method, every fork, JSON and SSZ bodies) and paths outside "
        "it, valid or with ONE alteration -- method; path shape (trailing slash, extra segments, other letter case / version / prefix, "
        "double slash, dot-dot, escaped slash, empty variable); Content-Type class; Accept class; one parameter's class (max-uint64, "
        "leading zeros, overflow, sign, letters, hex, missing, empty, duplicated; hex without 0x / upper case / short / long / bad; ids "
        "as indices / pubkeys / csv / repeated / mixed / in the body); Eth-Consensus-Version missing / unknown / other case / wrong "
        "for the endpoint; body empty / truncated / garbage / of another shape / with an unknown field / of another fork; what the "
        "scripted Handler answers (n objects, every version x blinded, missing field, metadata variants, error, panic, blocking until the "
        "client goes away / until the request timeout) and what the "
        "upstream answers (statuses, credentials in the address, hop-by-hop headers, unparsable address) -- ENUMERATED by TLC "
        "(VapiRouterGen, states = cases); literal values, forks of the altered cases and paths outside the table re-drawn from the seed. "
        "Executed as real HTTP requests (8 in flight) against the real validatorapi.NewRouter (builder flag off / on) served by "
        "httptest.Server over a scripted Handler and upstream; every trace validated by VapiRouterTrace.tla")
ASSUMPTIONS = [
    "known finding " + FINDING + ": a missing / unknown Eth-Consensus-Version header, a malformed body of submit attestations / "
    "proposal / blinded proposal and a malformed validator id are answered 500 'Internal server error' instead of 4xx (the handler "
    "functions replace unmarshal's apiError by errors.New / never make one); modelled by the constant Malformed = \"ascoded\"; three "
    "dedicated schedules are validated against the strict configuration and must be rejected exactly there",
    "known finding " + FINDING2 + ": an error of a Handler method / of Handler.Proxy that carries an API status code (eth2api.Error - what "
    "go-eth2-client returns when the beacon node answered 4xx / 5xx, also for every proxied request) is answered 500 'Internal server "
    "error' (writeError knows only its own apiError); constant ApiErr = \"ascoded\"; two dedicated schedules as above",
    "as coded and stated in the spec: wrong method / trailing slash / unknown sub-path of an intercepted path are proxied; a path that "
    "needs cleaning is redirected (301); %2F matches like a slash; builder_boost_factor of the request is ignored; the Accept header has "
    "no effect (always JSON); duplicated parameters: uint takes the first, fixed hex counts as missing, graffiti as absent; graffiti is "
    "padded / truncated to 32 bytes; validators: ids of the query win over the body, execution_optimistic / finalized always false; "
    "2xx statuses of the events upstream collapse to 200; a Handler error is always a 500 (validatorapi.Component makes no apiError)",
    "the reverse proxy itself (Handler.Proxy = eth2wrap / go-eth2-client) is outside the family: the stub's Proxy logs the request it "
    "got and answers as scripted; the events handler's httputil.ReverseProxy IS inside (scripted upstream over a socket)",
    "a body made for another fork than the header says may or may not parse (data dependent): the spec allows refusal or a call under "
    "the header's version",
    "fidelity of objects is compared through digests of their canonical JSON (repository's own eth2 types on both sides); "
    "validators are compared as a set (Go map order)",
]

FORKS = ["phase0", "altair", "bellatrix", "capella", "deneb", "electra", "fulu"]
BLINDED = FORKS[2:]
PATHS = {
    "attester_duties": "/eth/v1/validator/duties/attester/{epoch}", "proposer_duties": "/eth/v1/validator/duties/proposer/{epoch}",
    "proposer_duties_v2": "/eth/v2/validator/duties/proposer/{epoch}", "sync_committee_duties": "/eth/v1/validator/duties/sync/{epoch}",
    "attestation_data": "/eth/v1/validator/attestation_data", "submit_attestations": "/eth/v1/beacon/pool/attestations",
    "submit_attestations_v2": "/eth/v2/beacon/pool/attestations", "get_validators": "/eth/v1/beacon/states/{state_id}/validators",
    "get_validator": "/eth/v1/beacon/states/{state_id}/validators/{validator_id}", "propose_block": "/eth/v2/validator/blocks/{slot}",
    "propose_blinded_block": "/eth/v1/validator/blinded_blocks/{slot}", "propose_block_v3": "/eth/v3/validator/blocks/{slot}",
    "submit_proposal_v1": "/eth/v1/beacon/blocks", "submit_proposal_v2": "/eth/v2/beacon/blocks",
    "submit_blinded_block_v1": "/eth/v1/beacon/blinded_blocks", "submit_blinded_block_v2": "/eth/v2/beacon/blinded_blocks",
    "submit_validator_registration": "/eth/v1/validator/register_validator", "submit_voluntary_exit": "/eth/v1/beacon/pool/voluntary_exits",
    "teku_proposer_config": "/teku_proposer_config", "proposer_config": "/proposer_config",
    "aggregate_beacon_committee_selections": "/eth/v1/validator/beacon_committee_selections",
    "aggregate_attestation": "/eth/v1/validator/aggregate_attestation", "aggregate_attestation_v2": "/eth/v2/validator/aggregate_attestation",
    "submit_aggregate_and_proofs": "/eth/v1/validator/aggregate_and_proofs", "submit_aggregate_and_proofs_v2": "/eth/v2/validator/aggregate_and_proofs",
    "submit_sync_committee_messages": "/eth/v1/beacon/pool/sync_committees", "sync_committee_contribution": "/eth/v1/validator/sync_committee_contribution",
    "submit_contribution_and_proofs": "/eth/v1/validator/contribution_and_proofs",
    "submit_proposal_preparations": "/eth/v1/validator/prepare_beacon_proposer",
    "aggregate_sync_committee_selections": "/eth/v1/validator/sync_committee_selections", "node_version": "/eth/v1/node/version",
    "events": "/eth/v1/events",
}
OTHERS = ["/eth/v1/beacon/headers", "/eth/v1/beacon/genesis", "/eth/v1/config/spec", "/eth/v1/node/syncing", "/eth/v1/beacon/states/head/fork",
          "/eth/v1/beacon/blocks/head/root", "/eth/v1/validator/liveness/77", "/eth/v2/debug/beacon/states/head", "/metrics", "/",
          "/eth/v1/beacon/pool/attester_slashings", "/eth/v1/validator/duties", "/eth/v1/beacon/states/head/validator_balances"]
MAXU = "18446744073709551615"


# ----------------------------------------------------------------------------------------------------------------------
# concretisation: the literal strings of a case (what the class of a part looks like on the wire and what it denotes)
# ----------------------------------------------------------------------------------------------------------------------
def hexs(r, n):
    return "".join(r.choice("0123456789abcdef") for _ in range(2 * n))


def lit_uint(r, cls):
    v = str(r.choice([r.randint(1, 200), r.randint(1, 1 << 40), r.randint(1 << 62, (1 << 64) - 2)]))
    v2 = str(r.randint(1, 1 << 30) + 7)
    return {"ok": ([v], v), "max": ([MAXU], MAXU), "lead0": (["000" + v], v), "zero": (["0"], "0"), "alpha": (["12a"], ""), "neg": (["-5"], ""),
            "overflow": (["18446744073709551616"], ""), "plus": (["+5"], ""), "hex": (["0x10"], ""), "missing": ([], ""), "empty": ([""], ""),
            "dup": ([v, v2], v)}[cls] + (v2,)


def lit_hex(r, cls, n, optional):
    h = hexs(r, n)
    while not any(ch in "abcdef" for ch in h):
        h = hexs(r, n)
    if cls == "short":
        m = r.randint(1, n - 1)
        return ["0x" + h[:2 * m]], ("0x" + h[:2 * m] + "00" * (n - m)) if optional else "", ""
    if cls == "long":
        return ["0x" + h + hexs(r, r.randint(1, 8))], ("0x" + h) if optional else "", ""
    return {"ok": (["0x" + h], "0x" + h), "no0x": ([h], "0x" + h), "upper": (["0x" + h.upper()], "0x" + h), "missing": ([], ""),
            "dup": (["0x" + h, "0x" + hexs(r, n)], "0x" + h), "badhex": (["0x" + h[:-2] + "zz"], ""), "empty": ([""], "")}[cls] + ("",)


def lit_ids(r, cls):
    a, b = str(r.randint(1, 1 << 30)), str(r.randint(1, 1 << 30))
    p, q = "0x" + hexs(r, 48), "0x" + hexs(r, 48)
    return {"none": ([], ""), "idx1": ([a], a), "idxcsv": ([a + "," + b], a + "," + b), "idxrep": ([a, b], a + "," + b),
            "idxspace": ([a + ", " + b], a + "," + b), "idxmax": ([MAXU], MAXU), "pk1": ([p], p), "pkcsv": ([p + "," + q], p + "," + q),
            "alpha": ([a + ",abc"], ""), "mixed": ([r.choice([p + "," + a, a + "," + p])], ""), "badpk": (["0x1234"], ""),
            "idx": ([a], a), "pk": ([p], p), "neg": (["-1"], "")}[cls] + ("",)


def fill_param(r, p):
    k, cls = p["k"], p["cls"]
    if k == "uint":
        w, cv, cv2 = lit_uint(r, cls)
    elif k in ("hex32", "hex96", "hexopt"):
        w, cv, cv2 = lit_hex(r, cls, {"hex32": 32, "hex96": 96, "hexopt": 32}[k], k == "hexopt")
    elif k in ("ids", "vid"):
        w, cv, cv2 = lit_ids(r, cls)
    elif k == "state":
        v = {"head": "head", "root": "0x" + hexs(r, 32), "slot": str(r.randint(1, 1 << 30))}[cls]
        w, cv, cv2 = [v], v, ""
    else:   # "any": not looked at by the code
        w, cv, cv2 = {"ok": ["7"], "alpha": ["abc"], "missing": [], "max": [MAXU], "zero": ["0"]}[cls], "", ""
        if w:
            cv = w[0]
    p["w"], p["cv"], p["cv2"] = w, cv, cv2


def clean_path(p):
    """gorilla/mux cleanPath"""
    n = posixpath.normpath(p)
    if n.startswith("//"):
        n = n[1:]
    if p.endswith("/") and n != "/":
        n += "/"
    return n


def shape_path(path, shape, lastvar_empty):
    segs = path.split("/")            # ["", "eth", "v1", ...]
    single = len(segs) == 2
    if shape == "trailing":
        return path + "/"
    if shape == "extra":
        return path + "/zz/yy"
    if shape == "upcase":
        return "/" + segs[1].upper() + ("/" + "/".join(segs[2:]) if len(segs) > 2 else "")
    if shape == "otherver":
        return "/v9" + path if single else "/".join(segs[:2] + ["v9"] + segs[3:])
    if shape == "prefix":
        return "/api" + path
    if shape == "dblslash":
        return "/./" + segs[1] if single else "/".join(segs[:-1]) + "//" + segs[-1]
    if shape == "dotdot":
        return "/x/../" + segs[1] if single else "/".join(segs[:-1]) + "/x/../" + segs[-1]
    if shape == "encslash":
        return None if single else "/".join(segs[:-1]) + "%2F" + segs[-1]
    if shape == "emptyvar":
        return lastvar_empty
    return path


def concretise(r, case):
    """returns the schedule of a case ([case with literals]) or None when the case has no instance"""
    c = copy.deepcopy(case)
    ep = c["ep"]
    if c["body"]["enc"] == "ssz" and c["body"]["form"] in ("extrafield", "wrongtype"):
        return None                                             # forms of JSON bodies only
    versioned = c["ver"] in FORKS or c["ver"] == "upper"
    if versioned and c["alt"] not in ("none", "ver"):           # altered cases: the fork is re-drawn
        c["ver"] = c["vfork"] = c["bfork"] = r.choice(BLINDED if "blinded" in ep else FORKS)
    if c["ver"] == "upper" and c["vfork"] not in FORKS:
        c["vfork"] = r.choice(BLINDED)
    if c["body"]["form"] == "wrongfork":
        c["bfork"] = r.choice([f for f in (BLINDED if "blinded" in ep else FORKS) if f != c["ver"]])
    c["upauth"], c["upxbn"] = "user%d:pw%d" % (r.randint(1, 99), r.randint(1, 99)), "bn-%d" % r.randint(1, 999)
    query = []
    if ep == "other":
        path = r.choice(OTHERS)
        if r.random() < 0.6:
            query = r.choice([["a=1"], ["id=5", "id=6"], ["slot=9", "x=y%20z"], ["topics=head"]])
        if c["body"]["form"] != "empty":
            c["bodylit"], c["bodysent"] = r.choice(['{"x":1}', "[]", "not json at all", '["1","2"]']), []
    else:
        path = PATHS[ep]
        empty = None
        for p in c["params"]:
            fill_param(r, p)
            if p["in"] == "path":
                if path.endswith("{" + p["n"] + "}"):
                    empty = path.replace("{" + p["n"] + "}", "")
                path = path.replace("{" + p["n"] + "}", p["w"][0])
                if empty:
                    empty = empty.replace("{state_id}", "head")
            else:
                query += ["%s=%s" % (p["n"], quote(w, safe=",:")) for w in p["w"]]
        if ep == "events":
            query = ["topics=head", "topics=block"]
        if c["alt"] == "accept" and r.random() < 0.3:
            r.shuffle(query)
        path = shape_path(path, c["shape"], empty)
        if path is None:
            return None
        form = c["body"]["form"]
        if ep in ("attester_duties", "sync_committee_duties") and form != "empty":
            a, b = str(r.randint(1, 1 << 30)), str(r.randint(1, 1 << 40))
            lit, sent = {"ok": ("[%s,%s]" % (a, b), [a, b]), "okstr": ('["%s","%s"]' % (a, b), [a, b]), "emptylist": ("[]", []),
                         "overflow": ('["%s","18446744073709551616"]' % a, []), "wrongtype": ('{"a":1}', []), "garbage": ("[1,2", []),
                         "trunc": ('["12","3', [])}[form]
            c["bodylit"], c["bodysent"] = lit, sent
        if ep == "get_validators" and form != "empty":
            a, b = str(r.randint(1, 1 << 30)), str(r.randint(1, 1 << 30))
            pk = "0x" + hexs(r, 48)
            lit, bcv = {"ok": ('{"ids":["%s","%s"],"statuses":["active_ongoing"]}' % (a, b), a + "," + b), "okpk": ('{"ids":["%s"]}' % pk, pk),
                        "emptyobj": ("{}", ""), "garbage": ('{"ids":', "")}[form]
            c["bodylit"], c["bodysent"], c["bcv"] = lit, [], bcv
    c["path"], c["rawquery"] = path, "&".join(query)
    c["clean"] = clean_path(path) + ("?" + c["rawquery"] if c["rawquery"] else "")
    return [c]


# ----------------------------------------------------------------------------------------------------------------------
# binding self-tests: corrupt one recorded field / drop one event of an accepted trace -> must be rejected
# ----------------------------------------------------------------------------------------------------------------------
def mutators():
    def ev(t, name):
        return [i for i, e in enumerate(t) if e.get("ev") == name]

    def arg_changed(t):
        for i in ev(t, "H"):
            for k in ("slot", "epoch"):
                if k in t[i]["args"]:
                    t[i]["args"][k] = str(int(t[i]["args"][k]) ^ 1)
                    return t
        return None

    def bbf_changed(t):
        for i in ev(t, "H"):
            if "builder_boost_factor" in t[i]["args"]:
                t[i]["args"]["builder_boost_factor"] = "100"
                return t
        return None

    def handler_call_dropped(t):
        for i in ev(t, "H"):
            if t[i]["ret"]["kind"] == "ok":
                del t[i]
                return t
        return None

    def handler_call_on_proxied(t):
        if ev(t, "PX") and not ev(t, "H"):
            i = ev(t, "PX")[0]
            t.insert(i, {"ev": "H", "m": "NodeVersion", "args": {"_": ""}, "objs": [], "ret": {"kind": "ok", "objs": ["aa"], "ver": "deneb", "blinded": "false",
                                                                                                 "nofield": False, "ev": "0", "cv": "0", "meta": "ok", "eo": "false", "droot": ""}})
            return t
        return None

    def handler_call_on_malformed(t):
        if t[0]["alt"] == "param" and not ev(t, "H") and not ev(t, "PX") and t[0]["ep"] == "attestation_data":
            i = ev(t, "Resp")[0]
            t.insert(i, {"ev": "H", "m": "AttestationData", "args": {"_": "", "slot": "0", "committee_index": "0"}, "objs": [],
                         "ret": {"kind": "ok", "objs": ["aa"], "ver": "deneb", "blinded": "false", "nofield": False, "ev": "0", "cv": "0", "meta": "ok",
                                 "eo": "false", "droot": ""}})
            return t
        return None

    def other_method(t):
        for i in ev(t, "H"):
            if t[i]["m"] == "SubmitProposal":
                t[i]["m"] = "SubmitBlindedProposal"
                return t
        return None

    def object_changed(t):
        for i in ev(t, "H"):
            if t[i]["objs"] and t[0]["body"]["form"] != "wrongfork":
                t[i]["objs"][0] = "00" + t[i]["objs"][0][2:] if not t[i]["objs"][0].startswith("00") else "11" + t[i]["objs"][0][2:]
                return t
        return None

    def version_changed(t):
        for i in ev(t, "H"):
            if t[i]["args"].get("version") in FORKS:
                t[i]["args"]["version"] = "capella" if t[i]["args"]["version"] != "capella" else "deneb"
                return t
        return None

    def status_changed(t):
        for i in ev(t, "Resp"):
            if t[i]["status"] == 200:
                t[i]["status"] = 202
                return t
        return None

    def error_as_ok(t):
        for i in ev(t, "Resp"):
            if t[i]["status"] == 400:
                t[i]["status"], t[i]["code"], t[i]["ctype"] = 200, 0, "none"
                return t
        return None

    def error_code_mismatch(t):
        for i in ev(t, "Resp"):
            if t[i]["status"] >= 400 and t[i]["code"] == t[i]["status"]:
                t[i]["code"] = 418
                return t
        return None

    def data_changed(t):
        for i in ev(t, "Resp"):
            if t[i]["status"] == 200 and t[i]["objs"] and ev(t, "H"):
                t[i]["objs"][0] = "ff" + t[i]["objs"][0][2:] if not t[i]["objs"][0].startswith("ff") else "ee" + t[i]["objs"][0][2:]
                return t
        return None

    def blinded_header_flipped(t):
        for i in ev(t, "Resp"):
            if "hblinded" in t[i]["meta"]:
                t[i]["meta"]["hblinded"] = "true" if t[i]["meta"]["hblinded"] == "false" else "false"
                return t
        return None

    def version_field_changed(t):
        for i in ev(t, "Resp"):
            if "version" in t[i]["meta"]:
                t[i]["meta"]["version"] = "phase0" if t[i]["meta"]["version"] != "phase0" else "altair"
                return t
        return None

    def dependent_root_changed(t):
        for i in ev(t, "Resp"):
            if t[i]["meta"].get("dependent_root", "").startswith("0x") and ev(t, "H") and t[ev(t, "H")[0]]["ret"]["meta"] == "ok":
                t[i]["meta"]["dependent_root"] = "0x" + "ab" * 32
                return t
        return None

    def proxy_saw_other_path(t):
        for i in ev(t, "PX"):
            t[i]["seen"]["path"] += "x"
            return t
        return None

    def proxy_lost_query(t):
        for i in ev(t, "PX"):
            if t[i]["seen"]["rawquery"]:
                t[i]["seen"]["rawquery"] = ""
                return t
        return None

    def proxy_lost_body(t):
        for i in ev(t, "PX"):
            if t[i]["seen"]["body"]:
                t[i]["seen"]["body"] = ""
                return t
        return None

    def proxied_status_changed(t):
        for i in ev(t, "Resp"):
            if ev(t, "PX") and t[i]["status"] == 404:
                t[i]["status"] = 200
                return t
        return None

    def proxy_call_dropped(t):
        for i in ev(t, "PX"):
            del t[i]
            return t
        return None

    def upstream_without_credentials(t):
        for i in ev(t, "UP"):
            if t[i]["seen"]["auth"]:
                t[i]["seen"]["auth"] = ""
                return t
        return None

    def upstream_saw_hop_header(t):
        for i in ev(t, "UP"):
            t[i]["seen"]["xhop"] = "1"
            return t
        return None

    def listener_dead(t):
        for i in ev(t, "Probe"):
            t[i]["ok"] = False
            return t
        return None

    def context_not_cancelled(t):
        for i in ev(t, "CtxEnd"):
            if t[i]["ctxerr"] == "canceled":
                t[i]["ctxerr"] = "deadline"
                return t
        return None

    def context_never_ended(t):
        for i in ev(t, "CtxEnd"):
            t[i]["ctxerr"] = "none"
            return t
        return None

    def redirect_elsewhere(t):
        for i in ev(t, "Resp"):
            if t[i]["status"] == 301:
                t[i]["loc"] = "/elsewhere"
                return t
        return None

    return [("a uint argument of the Handler call changed", arg_changed), ("builder boost factor taken from the request", bbf_changed),
            ("Handler call dropped", handler_call_dropped), ("a Handler call on a proxied request", handler_call_on_proxied),
            ("a Handler call on a malformed request", handler_call_on_malformed), ("another Handler method called", other_method),
            ("a submitted object arrived changed", object_changed), ("the Handler got another version", version_changed),
            ("status 200 changed", status_changed), ("a 400 answered as 200", error_as_ok), ("error body carries another code", error_code_mismatch),
            ("response data changed", data_changed), ("blinded header flipped", blinded_header_flipped),
            ("version field of the response changed", version_field_changed), ("dependent_root changed", dependent_root_changed),
            ("the proxy saw another path", proxy_saw_other_path), ("the proxy lost the query", proxy_lost_query),
            ("the proxy lost the body", proxy_lost_body), ("a proxied 404 turned into 200", proxied_status_changed),
            ("proxy call dropped", proxy_call_dropped), ("upstream reached without the address's credentials", upstream_without_credentials),
            ("a hop-by-hop header reached the upstream", upstream_saw_hop_header), ("listener dead after a panic", listener_dead),
            ("redirect to another location", redirect_elsewhere),
            ("the Handler's context outlived the client", context_not_cancelled), ("the Handler's context never ended", context_never_ended)]


# ----------------------------------------------------------------------------------------------------------------------
CONTROLS = (("VapiRouterMC_ctl_anymethod.cfg", "Exclusive", "the method matcher of the intercepted routes is dropped"),
            ("VapiRouterMC_ctl_strictslash.cfg", "Exclusive", "a trailing slash still reaches the Handler"),
            ("VapiRouterMC_ctl_anyenc.cfg", "NoCallOnFault", "the per-endpoint encoding check of wrap is dropped"),
            ("VapiRouterMC_ctl_zeroonbad.cfg", "NoCallOnFault", "an unparsable uint parameter is read as 0"),
            ("VapiRouterMC_ctl_duplast.cfg", "ArgFidelity", "a duplicated uint parameter takes the last value"),
            ("VapiRouterMC_ctl_bbfquery.cfg", "ArgFidelity", "the builder boost factor is taken from the request"),
            ("VapiRouterMC_ctl_blindedflip.cfg", "RespFidelity", "the blinded flag of the proposal response is inverted"),
            ("VapiRouterMC_ctl_bgctx.cfg", "CtxPropagates", "the Handler is called with a context that does not end when the client goes away"),
            ("VapiRouterMC_ctl_clientfault500.cfg", "ClientFault4xx", "AS CODED: client faults answered 500 (known finding)"),
            ("VapiRouterMC_ctl_upstreamstatus500.cfg", "UpstreamStatusKept", "AS CODED: a Handler error carrying an API status answered 500 (known finding)"))
WORKERS = int(os.environ.get("VERIF_TLC_WORKERS", "0")) or None


def design_check(o, tier):
    from concurrent.futures import ThreadPoolExecutor
    thorough = tier == "thorough"
    main_cfg = "VapiRouterMC.cfg" if thorough else "VapiRouterMC_quick.cfg"
    gen_cfg = "VapiRouterGen_thorough.cfg" if thorough else "VapiRouterGen.cfg"
    oks = [("VapiRouterMC", main_cfg, WORKERS or 4), ("VapiRouterMC", "VapiRouterMC_strict.cfg", 2), ("VapiRouterMC", "VapiRouterMC_live.cfg", 2)]
    ctl = CONTROLS
    if os.environ.get("GROW_ONLY") == "conf":       # mutation experiments: the conformance part only
        oks, ctl = [], ()
    jobs = oks + [("VapiRouterMC", c, 2) for c, _, _ in ctl] + [("VapiRouterGen", gen_cfg, 1)]
    dirs = [vlib.scratch(o.pid, FAMILY) for _ in jobs]
    with ThreadPoolExecutor(max_workers=6) as ex:
        res = list(ex.map(lambda jd: vlib.tlc(o.pid, FAMILY, jd[0][0], jd[0][1], workers=jd[0][2], timeout=1500, sdir=jd[1]), zip(jobs, dirs)))
    for (mod, cfg, _), r in zip(oks, res):
        vlib.require_mc_ok(r, cfg)
        o.add_mc("VapiRouter/" + cfg[:-4], r)
    for (cfg, inv, what), r in zip(ctl, res[len(oks):]):
        if r.violation != inv:
            raise vlib.Infra("design-spec control failed: '%s' not caught by %s: %s" % (what, inv, r.summary()))
        o.selftests.append({"control": "VapiRouter spec variant '%s' violates %s" % (what, inv), "rejected_as_required": True})
    g = res[-1]
    if not g.ok:
        raise vlib.Infra("case enumeration failed: %s\n%s" % (g.summary(), g.out[-2000:]))
    cases = [json.loads(p)[0] for p in vlib.tagged_prints(g, "SCHED")]
    if not cases or len(cases) != len({json.dumps(c, sort_keys=True) for c in cases}):
        raise vlib.Infra("case enumeration: duplicate or no cases")
    return sorted(cases, key=lambda c: json.dumps(c, sort_keys=True))


def finding_cases(cases):
    """three cases of the known finding, one per kind"""
    pick = []
    for want in (lambda c: c["ep"] == "submit_proposal_v2" and c["alt"] == "ver" and c["ver"] == "none" and c["body"]["enc"] == "json",
                 lambda c: c["ep"] == "submit_attestations_v2" and c["alt"] == "body" and c["body"]["form"] == "garbage",
                 lambda c: c["ep"] == "get_validator" and c["alt"] == "param" and c["params"][1]["cls"] == "alpha"):
        pick += [c for c in cases if want(c)][:1]
    return pick


def finding2_cases(cases):
    """two cases of the second known finding: Handler.Proxy / a Handler method fails with the beacon node's 404"""
    pick = []
    for want in (lambda c: c["ep"] == "other" and c["method"] == "GET" and c["ctype"] == "none" and c["ans"]["kind"] == "apierr" and c["ans"]["status"] == 404,
                 lambda c: c["ep"] == "attestation_data" and c["ans"]["kind"] == "apierr" and c["ans"]["status"] == 404):
        pick += [c for c in cases if want(c)][:1]
    return pick


def stage(o, tier, seed):
    t0 = time.time()
    thorough = tier == "thorough"
    cases = design_check(o, tier)
    r = vlib.rng(seed, "vapirouter-conc")
    sch = [s for s in (concretise(r, c) for c in cases) if s]
    if thorough:
        for k in range(5):              # five more drawings of the literals / forks
            sch += [s for s in (concretise(r, c) for c in cases) if s]
    r.shuffle(sch)                      # neighbours in flight together are unrelated
    # a call that blocks until the request timeout takes 10 s of wall time: a few of them, last (in flight together)
    slow = [x for x in sch if x[0]["ans"]["kind"] == "timeout"]
    keep = [x for x in slow if x[0]["ep"] in ("attestation_data", "submit_sync_committee_messages", "propose_block_v3")][:3] \
        + [x for x in slow if x[0]["ep"] == "other"][:2]
    if thorough:
        keep = slow[:16]
    sch = [x for x in sch if x[0]["ans"]["kind"] != "timeout"] + keep
    o.extra["vapirouter_cases_enumerated_by_tlc"] = len(cases)
    # The known findings first: their schedules are validated against the STRICT configuration (client faults are 4xx, a status the
    # Handler's error carries is kept).  On the pinned tree they are rejected there and accepted by the configuration that has
    # exactly that deviation as coded -> KNOWN-FINDING, and the batch is validated with the deviations that showed; on a tree that
    # carries a fix its schedules are accepted and the batch is validated strictly in that respect.
    fs = [concretise(r, c) for c in finding_cases(cases) + finding2_cases(cases)]
    if len(fs) != 5:
        raise vlib.Infra("the schedules of the known findings were not found among the cases")
    nk = len(o.known)
    vlib.conformance(o, FAMILY, TRACE, STRICT, PKG, fs, tag="vr_strict", max_report=5,
                     dev_cfgs=[(FINDING, CFGS[(True, False)]), (FINDING2, CFGS[(False, True)])])
    shown = {fid for fid, _ in o.known[nk:]}
    cfg = CFGS[(FINDING in shown, FINDING2 in shown)]
    for f in (FINDING, FINDING2):
        if f not in shown and not o.violations:
            o.notes.append("the known finding %s does not show on this tree: validated strictly in that respect" % f)
    o.extra["vapirouter_trace_cfg"] = cfg
    tr = []
    if not o.violations:
        vlib.conformance(o, FAMILY, TRACE, cfg, PKG, sch, tag="vr", chunk=700, exec_timeout=900, tv_timeout=900, env={"VERIF_CONC": "8"})
        tr = vlib.split_traces(vlib.read_ndjson(os.path.join(vlib.workdir(o.pid), "trace_vr.ndjson")))
    if not o.violations:
        ms = mutators()
        nself = len(o.selftests)
        vlib.binding_selftest(o, FAMILY, TRACE, cfg, tr, ms)
        if len(o.selftests) - nself < len(ms):
            raise vlib.Infra("VapiRouter binding self-test: some negative control found no applicable trace")
    resp = [e for t in tr for e in t if e.get("ev") == "Resp"]
    o.extra["vapirouter_requests"] = len(tr)
    o.extra["vapirouter_handler_calls"] = sum(1 for t in tr for e in t if e.get("ev") == "H")
    o.extra["vapirouter_proxied"] = sum(1 for t in tr for e in t if e.get("ev") == "PX")
    o.extra["vapirouter_statuses"] = sorted({e["status"] for e in resp})
    log("[%s] VapiRouter stage: %d cases by TLC -> %d requests (%d Handler calls, %d proxied, statuses %s), %.0fs"
        % (o.pid, len(cases), len(tr), o.extra["vapirouter_handler_calls"], o.extra["vapirouter_proxied"], o.extra["vapirouter_statuses"],
           time.time() - t0))


def main(tier="quick", seed=1, pid="GVAPIROUTER"):
    """Stand-alone driver (the evidence file is written by checks/grow_all.py when the family is registered)."""
    vlib.workdir(pid, fresh=True)
    o = vlib.Outcome(pid, tier, seed)
    try:
        stage(o, tier, int(seed))
    except vlib.Infra as e:
        log("INFRA: %s" % e)
        return 2
    for fid, txt in o.known:
        log("KNOWN-FINDING: property=%s %s: %s" % (pid, fid, txt))
    for path, txt in o.violations:
        log("VIOLATION property=%s replay=%s" % (pid, path))
        log("  " + txt)
    if o.violations:
        return 1
    log("[%s] OK tier=%s seed=%s: %d MC states, %d traces validated, %d self-test controls, %.0fs"
        % (pid, tier, seed, o.states, o.traces, len(o.selftests), time.time() - o.t0))
    return 0


def replay(path):
    rp = json.load(open(path))
    o = vlib.Outcome(rp.get("property", "GVAPIROUTER"), "quick", 0)
    vlib.conformance(o, FAMILY, rp["trace_module"], rp["trace_cfg"], rp["pkg"], [rp["schedule"]], tag="replay", env=rp.get("env") or None)
    for p, t in o.violations:
        log("replay: " + t)
    return 1 if o.violations else 0


if __name__ == "__main__":
    import sys
    sys.exit(main(*(sys.argv[1:3] or ["quick", 1])))
