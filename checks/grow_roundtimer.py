"""GROWTH family "RoundTimer" - core/consensus/timer/roundtimer.go (GetRoundTimerFunc and its feature-flag selection; the
increasing, eager double-linear and linear round timers: Type(), Timer(round) + stop function, the eager policy's per-round
memory of first deadlines and its doubling on a repeated call, absolute (genesis / slot / duty-type offset) vs relative
deadlines, the proposer extra, round numbers out of order / <= 0 / huge, calls after stop, fake vs real clock) as qbft.Run
uses it (Timer(round) at every round change and again on a justified PRE-PREPARE; one timer object per instance).

Not a registered check: `stage(o, tier, seed)` runs the family as a stage (the Outcome `o` collects coverage and
violations); `main(tier, seed)` is a stand-alone driver, `replay(path)` re-runs a replay file."""
import json, os, time
import vlib
from vlib import log

FAMILY = "RoundTimer"
PKG = "roundtimer"
TRACE = "RoundTimerTrace"
TCFG = "RoundTimerTrace.cfg"
WORKERS = int(os.environ.get("VERIF_TLC_WORKERS", "0")) or None

RULE = ("RoundTimer family: schedules = a configuration (feature flags linear / eager_double_linear / proposal_timeout, genesis "
        "before / at / after the clock's start or none, slot duration, two timer objects made by GetRoundTimerFunc(...)(duty) or by "
        "one of the 14 exported constructors, duty type and slot) + a sequence of Timer(round) calls (rounds in any order, repeats, "
        "<= 0, huge), stop functions (also repeated / after the channel fired) and clock steps; generated (a) by TLC simulation of "
        "RoundTimerGen (history variable) and (b) by a seeded random generator that aims clock steps at the deadlines (1 ms before / "
        "at / 1 ms after).  Executed on the REAL timer objects inside testing/synctest (fake clockwork clock advanced in lock step "
        "with the bubble's virtual clock); after every step every channel is polled and the clock's waiters are counted; every "
        "trace validated by RoundTimerTrace.tla (deadline sets from the documentation, exact to the millisecond)")
ASSUMPTIONS = [
    "testing/synctest virtual time and the clockwork fake clock stand in for real time; the value a timer channel delivers is the "
    "instant the timer was due (clockwork: the waiter's expiration; runtime timers: `when`), which lets the trace spec check the "
    "deadline exactly even when a clock step jumps past it",
    "the documented deadline functions: increasing IncRoundStart + IncRoundIncrease*round from the call (docs/consensus.md; the "
    "comment on increasingRoundTimeout says 'starts at incRoundStart in round 1', the code and docs/consensus.md give 1 s for "
    "round 1); eager: reference (duty start = genesis + slot*slotDuration + duty-type offset, or the time of the first call for "
    "the round when no genesis / slot duration is given) + round*1 s, + the same again on the second call for the round; third "
    "and later calls for one round are not documented: reference + 2x, 3x or 4x the round's timeout accepted (the code: 2x); "
    "linear: 1 s in round 1, 200 ms * round afterwards (constants of the code; the documentation only says 'lower value which "
    "will increase linearly'); proposal_timeout: +500 ms for proposer duties, round 1 only (increasing, linear), every round "
    "(eager: with absolute deadlines that makes round 1 longer and shifts the rest)",
    "round numbers < 1 or > 100000 are outside the contract: such a call may fire at any time (exactly once, never after stop)",
    "slot durations are multiples of 3 ms (duty-type offsets slot/3 and 2*slot/3 are whole milliseconds)",
    "feature flags are not changed while timer objects exist",
    "'fires' = the channel delivers exactly one time value and is never closed (the RoundTimer interface comment says 'a channel "
    "that will be closed when the round expires'; no implementation closes it, qbft.Run receives once)",
]

CTORS = {("inc", False): (["incDuty", "incDutyClock"], ["inc", "incClock"]),
         ("eager", False): (["eagerDuty", "eagerDutyClock"], ["eager", "eagerClock"]),
         ("eager", True): (["eagerTiming", "eagerTimingClock"], []),
         ("linear", False): (["linearDuty", "linearDutyClock"], ["linear", "linearClock"])}
DTYPES = ["unknown", "proposer", "attester", "aggregator", "sync_contribution", "randao", "sync_message"]
FAR = 40000


def pick_ctor(r, via, timing, dtype, slot):
    if via == "func":
        return "func"
    duty, noduty = CTORS[(via, bool(timing) and via == "eager")]
    return r.choice(duty + (noduty if dtype == "unknown" and slot == 0 else []))


def tail(r, ncalls):
    k = r.random()
    if k < 0.4:
        return [{"ev": "Adv", "d": FAR}]
    if k < 0.8:
        ks = list(range(1, ncalls + 1))
        r.shuffle(ks)
        return [{"ev": "Stop", "k": x} for x in ks[:r.randint(0, ncalls)]] + [{"ev": "Adv", "d": FAR}]
    return []


# (a) histories of RoundTimerGen
def from_hist(r, h):
    c = h["cfg"]
    objs = [{"ctor": pick_ctor(r, x["via"], x["timing"], x["dtype"], x["slot"]), "dtype": x["dtype"], "slot": x["slot"]} for x in c["obj"]]
    steps = [dict(s) for s in h["steps"]]
    n = sum(1 for s in steps if s["ev"] == "Call")
    return [{"ev": "Cfg", "linear": c["linear"], "eager": c["eager"], "proposal": c["proposal"], "hasgen": c["hasgen"],
             "genesis": c["genesis"], "slotms": c["slotms"], "objs": objs}] + steps + tail(r, n)


# (b) seeded random schedules.  `aims` are where the generator AIMS its clock steps (the oracle is RoundTimer.tla)
def rough_timeouts(r_):
    return [750 + 250 * r_, 1000 * r_, 1000 * r_ + 500, 200 * r_, 1500, 2000 * r_, 2000 * r_ + 1000]


def random_schedule(r, big):
    linear, eager, proposal = r.random() < 0.4, r.random() < 0.6, r.random() < 0.6
    hasgen = r.random() < 0.75
    slotms = r.choice([0, 600, 1200, 3000, 3000, 6000, 12000, 12000])
    genesis = r.choice([0, -1000, -4000, r.randint(-30000, 3000), r.randint(-3000, 3000), 1500]) if hasgen else 0
    objs = []
    for _ in range(2):
        via = r.choice(["func", "func", "func", "inc", "eager", "eager", "eager", "linear"])
        timing = via == "func" or (via == "eager" and r.random() < 0.6)
        dtype = r.choice(DTYPES + ["proposer", "proposer", "attester"])
        slot = 0 if dtype == "unknown" else r.choice([0, 0, 1, 2, 3])
        objs.append({"ctor": pick_ctor(r, via, timing, dtype, slot), "dtype": dtype, "slot": slot})
    if r.random() < 0.25:       # two instances of the same duty type and slot
        objs[1] = dict(objs[0])
    steps, now, ncalls, aims = [], 0, 0, []
    base_round = r.choice([1, 1, 1, 2, 3])
    for _ in range(r.randint(4, 26 if big else 16)):
        k = r.random()
        if k < 0.45 and ncalls < (14 if big else 9):
            o = r.choice([1, 1, 2])
            m = r.random()
            if m < 0.55:
                rd = base_round            # repeats: the doubling, third calls
            elif m < 0.8:
                rd = r.choice([1, 2, 3, 4, 5, base_round + 1])
                base_round = r.choice([base_round, rd])
            elif m < 0.9:
                rd = r.choice([0, -1, -2, -5, 7, 10, 50, 1000, 99999, 100000, 100001])
            else:
                rd = r.choice([1 << 40, (1 << 62), -(1 << 40), 9223372037, 2 ** 63 - 1, 1000001, 1000000])
            steps.append({"ev": "Call", "o": o, "r": rd})
            ncalls += 1
            if 0 < rd <= 20:
                ds = 0
                if hasgen and slotms > 0:
                    dt = objs[o - 1]["dtype"]
                    ds = genesis + slotms * objs[o - 1]["slot"] + (slotms // 3 if dt == "attester" else 2 * slotms // 3 if dt in ("aggregator", "sync_contribution") else 0)
                for T in rough_timeouts(rd):
                    aims += [now + T, ds + T]
        elif k < 0.6 and ncalls:
            steps.append({"ev": "Stop", "k": r.randint(1, ncalls)})
        else:
            fut = sorted(a for a in set(aims) if a > now - 1)
            if fut and r.random() < 0.75:
                target = r.choice(fut[:4]) + r.choice([0, 0, 0, -1, 1])
                d = target - now
            else:
                d = r.choice([1, 50, 200, 250, 333, 500, 750, 1000, 1500, r.randint(1, 3000)])
            if d <= 0:
                d = r.choice([1, 250])
            steps.append({"ev": "Adv", "d": d})
            now += d
    if r.random() < 0.08 and any(0 < s.get("r", 0) <= 100000 for s in steps):
        steps.append({"ev": "Adv", "d": 450000000})       # far enough for round 100000, doubled twice
    return [{"ev": "Cfg", "linear": linear, "eager": eager, "proposal": proposal, "hasgen": hasgen, "genesis": genesis,
             "slotms": slotms, "objs": objs}] + steps + tail(r, ncalls)


# (c) the way qbft.Run uses a timer object: Timer(1) at the start, then stopTimer(); Timer(round) at every round change (timeout
# of the current round, f+1 ROUND-CHANGEs, justified PRE-PREPARE of a later round) and once more on a justified PRE-PREPARE
# of the current round; stopTimer() on a decision.  Two instances (duties) side by side.  The clock steps AIM at the moments
# the channels fire (rough model below, only for aiming: the oracle is RoundTimer.tla).
def _aim_kind(cfg, ob):
    c = ob["ctor"]
    if c != "func":
        return "inc" if c.startswith("inc") else "eager" if c.startswith("eager") else "linear"
    if cfg["linear"] and ob["dtype"] == "proposer":
        return "linear"
    return "eager" if cfg["eager"] else "inc"


def _aim_timeout(kind, rd, prop):
    if kind == "inc":
        return 1500 if prop and rd == 1 else 750 + 250 * rd
    if kind == "eager":
        return 1000 * rd + (500 if prop else 0)
    return (1500 if prop else 1000) if rd == 1 else 200 * rd


def qbft_schedule(r, big):
    linear, eager, proposal = r.random() < 0.3, r.random() < 0.75, r.random() < 0.7
    slotms = r.choice([3000, 6000, 12000, 12000, 0])
    objs, starts = [], []
    for _ in range(2):
        dtype = r.choice(["proposer", "proposer", "attester", "attester", "aggregator", "sync_contribution", "randao", "sync_message"])
        via = r.choice(["func"] * 5 + ["eager", "eager", "inc", "linear"])
        timing = via == "func" or (via == "eager" and r.random() < 0.7)
        objs.append({"ctor": pick_ctor(r, via, timing, dtype, r.choice([0, 1, 2])), "dtype": dtype, "slot": r.choice([0, 1, 2])})
    # genesis so that the first duty starts about when its instance starts
    dt = objs[0]["dtype"]
    delay = slotms // 3 if dt == "attester" else 2 * slotms // 3 if dt in ("aggregator", "sync_contribution") else 0
    genesis = -(slotms * objs[0]["slot"] + delay) + r.choice([0, 0, 0, 100, -100, -700, 400, -2500])
    cfg = {"ev": "Cfg", "linear": linear, "eager": eager, "proposal": proposal, "hasgen": r.random() < 0.9, "genesis": genesis,
           "slotms": slotms, "objs": objs}
    timed = []       # (time, seq, object, what)
    for oi, ob in enumerate(objs):
        kind = _aim_kind(cfg, ob)
        prop = proposal and ob["dtype"] == "proposer"
        absolute = kind == "eager" and ob["ctor"] in ("func", "eagerTiming", "eagerTimingClock") and cfg["hasgen"] and slotms > 0
        d2 = ob["dtype"]
        ds = genesis + slotms * ob["slot"] + (slotms // 3 if d2 == "attester" else 2 * slotms // 3 if d2 in ("aggregator", "sync_contribution") else 0)
        now = r.choice([0, 0, 0, 200, 500, 900]) + (oi * r.choice([0, 0, 300, 1000]))
        rd, firstdl, seen_pp = 1, {}, False

        def arm(rd, now):
            T = _aim_timeout(kind, rd, prop)
            if kind != "eager":
                return now + T
            if rd in firstdl:
                return firstdl[rd] + T
            firstdl[rd] = (ds if absolute else now) + T
            return firstdl[rd]
        timed.append((now, len(timed), oi + 1, ("call", rd)))
        dl = arm(rd, now)
        for _ in range(r.randint(2, 9 if big else 6)):
            k = r.random()
            if k < 0.35 and not seen_pp:        # justified PRE-PREPARE of the current round
                at = now + r.choice([0, 1, 50, 300, max(0, dl - now - 1), max(0, dl - now), r.randint(0, max(1, dl - now))]) if dl > now else now
                if at > max(dl, now):
                    at = max(dl, now)
                now, seen_pp = at, True
                timed.append((now, len(timed), oi + 1, ("stop",)))
                timed.append((now, len(timed), oi + 1, ("call", rd)))
                dl = arm(rd, now)
            elif k < 0.75:                       # timeout -> next round
                now = max(now, dl + r.choice([0, 0, 0, 0, 1]))
                rd, seen_pp = rd + 1, False
                timed.append((now, len(timed), oi + 1, ("stop",)))
                timed.append((now, len(timed), oi + 1, ("call", rd)))
                dl = arm(rd, now)
            elif k < 0.9:                        # f+1 ROUND-CHANGEs / justified PRE-PREPARE of a later round
                now = now + (r.randint(0, max(1, dl - now)) if dl > now else 0)
                rd, seen_pp = rd + r.choice([1, 1, 2, 3]), r.random() < 0.5
                timed.append((now, len(timed), oi + 1, ("stop",)))
                timed.append((now, len(timed), oi + 1, ("call", rd)))
                dl = arm(rd, now)
            else:                                # decided
                now = now + (r.randint(0, max(1, dl - now)) if dl > now else 0)
                timed.append((now, len(timed), oi + 1, ("stop",)))
                break
    timed.sort()
    steps, now, ncalls, cur = [], 0, 0, {}
    for at, _, o, what in timed:
        if at > now:
            steps.append({"ev": "Adv", "d": at - now})
            now = at
        if what[0] == "call":
            ncalls += 1
            cur[o] = ncalls
            steps.append({"ev": "Call", "o": o, "r": what[1]})
        elif o in cur:
            steps.append({"ev": "Stop", "k": cur[o]})
    return [cfg] + steps + tail(r, ncalls)


def random_schedules(seed, n, big):
    r = vlib.rng(seed, "roundtimer-rnd")
    return [qbft_schedule(r, big) if i % 3 == 2 else random_schedule(r, big) for i in range(n)]


# ----------------------------------------------------------------------------------------------------------------------
# binding self-tests
# ----------------------------------------------------------------------------------------------------------------------
def mutators():
    def first(t, pred, start=0):
        for k in range(start, len(t)):
            if pred(t[k]):
                return k
        return None

    def fire_value(t):
        k = first(t, lambda e: e["ev"] == "Fire")
        if k is None:
            return None
        t[k]["v"] += 1
        return t

    def fire_value_early(t):
        k = first(t, lambda e: e["ev"] == "Fire" and e["v"] > 1)
        if k is None:
            return None
        t[k]["v"] -= 1
        return t

    def fire_dropped(t):
        k = first(t, lambda e: e["ev"] == "Fire")
        if k is None:
            return None
        del t[k]
        return t

    def fire_twice(t):
        k = first(t, lambda e: e["ev"] == "Fire")
        if k is None:
            return None
        t.insert(k + 1, dict(t[k]))
        return t

    def fire_after_stop(t):
        k = first(t, lambda e: e["ev"] == "Fire")
        if k is None:
            return None
        t.insert(k, {"ev": "Stop", "k": t[k]["k"], "t": t[k]["t"]})
        return t

    def type_changed(t):
        k = first(t, lambda e: e["ev"] == "Type")
        t[k]["type"] = "inc" if t[k]["type"] != "inc" else "eager_dlinear"
        return t

    def eager_flag(t):
        k = first(t, lambda e: e["ev"] == "Type")
        t[k]["eager"] = not t[k]["eager"]
        return t

    def waiters_off(t):
        k = first(t, lambda e: e["ev"] == "Polled" and e["w"] > 0)
        if k is None:
            return None
        t[k]["w"] -= 1
        return t

    def leaked_waiter(t):
        k = first(t, lambda e: e["ev"] == "Polled")
        if k is None:
            return None
        t[k]["w"] += 1
        return t

    def round_changed(t):
        for k, e in enumerate(t):
            if e["ev"] == "Call" and 1 <= e["r"] <= 10 and any(x["ev"] == "Fire" and x["k"] == e["k"] and x["v"] > e["t"] for x in t[k:]):
                e["r"] += 1
                return t
        return None

    def stop_dropped(t):
        for k, e in enumerate(t):
            if e["ev"] == "Stop" and not any(x["ev"] == "Fire" and x["k"] == e["k"] for x in t[:k]) \
                    and not any(x["ev"] == "Stop" and x["k"] == e["k"] for x in t[:k]) and t[-2]["ev"] != "Stop":
                del t[k]
                return t
        return None

    def clock_step(t):
        k = first(t, lambda e: e["ev"] == "Adv")
        if k is None:
            return None
        t[k]["d"] += 1
        return t

    def flag_flipped(t):
        if not any(o["ctor"] == "func" for o in t[0]["objs"]):
            return None
        t[0]["eager"] = not t[0]["eager"]
        t[0]["linear"] = False
        return t

    def genesis_moved(t):
        if not t[0]["hasgen"] or t[0]["slotms"] <= 0 or not t[0]["eager"] or t[0]["linear"]:
            return None
        if not any(o["ctor"] == "func" for o in t[0]["objs"]) or not any(e["ev"] == "Fire" and e["v"] > e.get("t", 0) - 10**9 for e in t):
            return None
        t[0]["genesis"] += 7
        return t

    return [("a channel delivered a time 1 ms after its deadline", fire_value),
            ("a channel delivered a time 1 ms before its deadline", fire_value_early),
            ("a firing not observed", fire_dropped), ("a channel fired twice", fire_twice),
            ("a channel fired after its stop function", fire_after_stop),
            ("Type() is another policy's", type_changed), ("Type().Eager() flipped", eager_flag),
            ("a clock waiter missing", waiters_off), ("a clock waiter left behind", leaked_waiter),
            ("Timer called with another round", round_changed), ("a stop function not called", stop_dropped),
            ("clock step 1 ms longer than recorded", clock_step), ("eager_double_linear flag flipped", flag_flipped),
            ("genesis moved by 7 ms", genesis_moved)]


# ----------------------------------------------------------------------------------------------------------------------
CONTROLS = (("ctl_resetOnRepeat", "DoubleNotReset", "eager: a repeated call re-arms from 'now' (the reset policy the eager timer replaces)"),
            ("ctl_sharedMemory", "AsDocumented", "eager: one firstDeadlines map shared by all instances"),
            ("ctl_ignoreTiming", "AsDocumented", "eager: genesis / slot start ignored, deadlines relative to the call"),
            ("ctl_noStop", "NoFireAfterStop", "the stop function does not stop the timer"),
            ("ctl_noStopLeak", "NoLeak", "the stop function leaves the clock waiter behind"),
            ("ctl_refire", "AtMostOnce", "a channel fires again (ticker instead of timer)"),
            ("ctl_early", "NeverEarly", "a channel fires up to 250 ms before the clock reaches the deadline"),
            ("ctl_late", "Prompt", "a channel does not fire when the clock is exactly at the deadline"),
            ("ctl_incExtraAllRounds", "AsDocumented", "increasing: proposer extra in every round"),
            ("ctl_incStartsAtBase", "AsDocumented", "increasing: round 1 lasts IncRoundStart only"),
            ("ctl_linearFirstShort", "AsDocumented", "linear: round 1 treated like the later rounds"),
            ("ctl_eagerBeforeLinear", "SelectionAsDocumented", "GetRoundTimerFunc: eager flag takes precedence over linear"),
            ("ctl_linearAllDuties", "SelectionAsDocumented", "GetRoundTimerFunc: linear for every duty type"),
            ("ctl_live", "temporal", "liveness control: 'every channel fires' although stopped ones must not"),
            ("obs_zeroLengthRound", "QbftRoundHasTime", "AS CODED (observation): with absolute deadlines a round entered at the timeout "
             "of a doubled round starts with a deadline that has passed and gets no time at all"))
OBSERVATION = ("eager double-linear timer with genesis + slot duration (what GetRoundTimerFunc makes): the first deadline of round r is "
               "dutyStart + r s whatever happened before; qbft.Run enters round r when round r-1 timed out, a doubled round r-1 ends at "
               "dutyStart + 2(r-1) s >= dutyStart + r s, so round r fires at once (zero-length round: its leader is skipped) and without "
               "doubling every round lasts 1 s, not '1s, 2s, 3s' as the type's comment says; on relative time (constructors without "
               "genesis) every round has r s (RoundTimerMC_obs_relativeHasTime).  TLC counterexample: Timer(1)@0, Timer(1)@0 (doubled, "
               "2 s), fires @2 s, Timer(2)@2 s has deadline 2 s.  Repro: harness/roundtimer/obs_test.go.  The component does what its "
               "documented absolute deadline function says (no conformance failure); system-level consequence: known finding "
               "C04-eager-timer-tie-desync")

QUICK_MC = ["inc", "eagerrel", "eagerabs", "linear", "lineardirect", "select", "corner", "contract", "live", "obs_relativeHasTime"]
THOROUGH_MC = ["inc_thorough", "eagerrel_thorough", "eagerabs_thorough", "linear_thorough", "lineardirect", "select", "corner",
               "contract_thorough", "one_eager_thorough", "live_thorough", "obs_relativeHasTime"]


def design_check(o, tier, seed):
    """Design check, controls and schedule generation: independent TLC runs side by side; returns the generated histories and
    a function that waits for the model-checking runs and books them (the conformance runs meanwhile)."""
    from concurrent.futures import ThreadPoolExecutor
    thorough = tier == "thorough"
    mains = THOROUGH_MC if thorough else QUICK_MC
    n = 1500 if thorough else 250
    jobs = [("RoundTimerGen", "RoundTimerGen.cfg", dict(simulate="num=%d" % n, depth=60, seed=seed, workers=1)),
            ("RoundTimerGen", "RoundTimerGen_fine.cfg", dict(simulate="num=%d" % n, depth=60, seed=seed + 1000, workers=1))]
    controls = CONTROLS
    if os.environ.get("VERIF_ROUNDTIMER_NOMC"):      # mutation experiments: the design check does not depend on the tree
        mains, controls = [], ()
    jobs += [("RoundTimerMC", "RoundTimerMC_%s.cfg" % c, dict(workers=WORKERS or (4 if thorough else 2))) for c in mains]
    jobs += [("RoundTimerMC", "RoundTimerMC_%s.cfg" % c, dict(workers=1)) for c, _, _ in controls]
    dirs = [vlib.scratch(o.pid, FAMILY) for _ in jobs]
    ex = ThreadPoolExecutor(max_workers=8 if not thorough else 6)
    futs = [ex.submit(vlib.tlc, o.pid, FAMILY, j[0], j[1], timeout=1700, sdir=d, **j[2]) for j, d in zip(jobs, dirs)]
    hists, seen = [], set()
    for f in futs[:2]:
        g = f.result()
        if g.error or g.timed_out or (g.violation and g.violation != "deadlock"):
            raise vlib.Infra("schedule generation failed: %s\n%s" % (g.summary(), g.out[-2000:]))
        for p in vlib.tagged_prints(g, "SCHED"):
            if p not in seen:
                seen.add(p)
                hists.append(json.loads(p))
    if not hists:
        raise vlib.Infra("schedule generation: no histories")

    def join():
        res = [f.result() for f in futs[2:]]
        ex.shutdown()
        for cfg, r in zip(mains, res):
            vlib.require_mc_ok(r, cfg)
            o.add_mc("RoundTimer/" + cfg, r)
        for (cfg, inv, what), r in zip(controls, res[len(mains):]):
            got = r.violation or ("temporal" if "Temporal property StoppedFire was violated" in r.out else None)
            if "Temporal property StoppedFire was violated" in r.out:
                got = "temporal"
            if got != inv:
                raise vlib.Infra("design-spec control failed: '%s' not caught by %s: %s" % (what, inv, r.summary()))
            o.selftests.append({"control": "RoundTimer spec variant '%s' violates %s" % (what, inv), "rejected_as_required": True})
        if controls:
            o.notes.append("OBSERVATION RoundTimer: " + OBSERVATION)
    return hists, join


def stage(o, tier, seed):
    """Run the RoundTimer family as a stage of a check."""
    t0 = time.time()
    thorough = tier == "thorough"
    hists, join_design = design_check(o, tier, seed)
    r = vlib.rng(seed, "roundtimer-gen")
    r.shuffle(hists)
    hists = hists[:8000 if thorough else 1200]
    gen = [from_hist(r, h) for h in hists]
    rnd = random_schedules(seed, 12000 if thorough else 1800, thorough)
    o.extra["roundtimer_histories_by_tlc"] = len(gen)
    vlib.conformance(o, FAMILY, TRACE, TCFG, PKG, gen, tag="rtgen", chunk=400, exec_timeout=900, tv_timeout=900)
    vlib.conformance(o, FAMILY, TRACE, TCFG, PKG, rnd, tag="rtrnd", chunk=400, exec_timeout=900, tv_timeout=900)
    join_design()
    tr = []
    for tag in ("rtgen", "rtrnd"):
        tr += vlib.split_traces(vlib.read_ndjson(os.path.join(vlib.workdir(o.pid), "trace_%s.ndjson" % tag)))
    if not o.violations:
        ms = mutators()
        nself = len(o.selftests)
        vlib.binding_selftest(o, FAMILY, TRACE, TCFG, tr, ms)
        if len(o.selftests) - nself < len(ms):
            raise vlib.Infra("RoundTimer binding self-test: some negative control found no applicable trace")
    ev = [e for t in tr for e in t]
    calls = [e for e in ev if e["ev"] == "Call"]
    o.extra["roundtimer_calls"] = len(calls)
    o.extra["roundtimer_fired"] = sum(1 for e in ev if e["ev"] == "Fire")
    o.extra["roundtimer_stops"] = sum(1 for e in ev if e["ev"] == "Stop")
    o.extra["roundtimer_calls_outside_contract"] = sum(1 for e in calls if e["r"] < 1 or e["r"] > 100000)
    o.extra["roundtimer_ctors"] = sorted({x["ctor"] for t in tr for x in t[0]["objs"]})
    o.extra["roundtimer_types"] = sorted({e["type"] for e in ev if e["ev"] == "Type"})
    log("[%s] RoundTimer stage: %d TLC histories + %d random schedules -> %d traces, %d calls, %d firings, %d stops, %.0fs"
        % (o.pid, len(gen), len(rnd), len(tr), len(calls), o.extra["roundtimer_fired"], o.extra["roundtimer_stops"], time.time() - t0))


def main(tier="quick", seed=1, pid="GROUNDTIMER"):
    """Stand-alone driver (the evidence file is written by checks/grow_all.py when the family is registered)."""
    vlib.workdir(pid, fresh=True)
    o = vlib.Outcome(pid, tier, seed)
    try:
        stage(o, tier, int(seed))
    except vlib.Infra as e:
        log("INFRA: %s" % e)
        return 2
    for fid, txt in o.known:
        log("KNOWN-FINDING: property=%s %s: %s" % (pid, fid, txt))
    for path, txt in o.violations:
        log("VIOLATION property=%s replay=%s" % (pid, path))
        log("  " + txt)
    if o.violations:
        return 1
    log("[%s] OK tier=%s seed=%s: %d MC states, %d traces validated, %d self-test controls, %.0fs"
        % (pid, tier, seed, o.states, o.traces, len(o.selftests), time.time() - o.t0))
    return 0


def replay(path):
    rp = json.load(open(path))
    o = vlib.Outcome(rp.get("property", "GROUNDTIMER"), "quick", 0)
    vlib.conformance(o, FAMILY, rp["trace_module"], rp["trace_cfg"], rp["pkg"], [rp["schedule"]], tag="replay")
    for p, t in o.violations:
        log("replay: " + t)
    return 1 if o.violations else 0


if __name__ == "__main__":
    import sys
    sys.exit(main(*(sys.argv[1:3] or ["quick", 1])))
