"""GROWTH family "SSE" - app/sse: client.go (newClient, start: the reconnect loop with its backoff, connect, parseEvent /
formatAndValidateEvent: the text/event-stream framing) and listener.go (StartListener, Subscribe*, eventHandler dispatch,
handleHeadEvent, handleChainReorgEvent with its de-duplication across beacon nodes, handleBlockGossipEvent / handleBlockEvent,
notify*, computeDelay, storeBlockGossipTime / recordBlockProcessingTime and its trimming), as app/app.go wires it (head events
-> scheduler's early attestation fetch; chain-reorg events -> duties cache, scheduler, fetcher's early-attestation cache).

Not a registered check: `stage(o, tier, seed)` runs the family as a stage (the Outcome `o` collects coverage and
violations); `main(tier, seed)` is a stand-alone driver, `replay(path)` re-runs a replay file."""
import hashlib, json, os, re, time
import vlib
from vlib import log

FAMILY = "SSE"
PKG = "sse"
TRACE = "SSETrace"
WORKERS = int(os.environ.get("VERIF_TLC_WORKERS", "0")) or None

RULE = ("SSE family: the real sse.StartListener and the clients it starts, inside testing/synctest, against an in-process net/http "
        "server reached through a real http.Transport over net.Pipe connections (installed as http.DefaultTransport).  Schedules "
        "= what each connect of each of up to three beacon node addresses is answered with (refused / status code / stream), the "
        "bytes of the stream -- frames of head / chain_reorg / block_gossip / block / unknown topics, well-formed and malformed in "
        "some 40 ways (JSON shape, slot / depth / root text), comments, id / retry / unknown / colon-less fields, multi-line data cut "
        "between and inside JSON tokens, CRLF and LF, oversize lines -- cut into chunks at random byte positions, byte by byte "
        "and at every position class of a line, the time of every chunk, how and when a stream ends (clean end between lines / "
        "inside a line, truncated body, connection reset), subscribers added before and after events, cancellation; generated "
        "(a) by TLC simulation of SSEGen (history variable; model time = 200 ms, jitter of expbackoff pinned so that the "
        "model's coincidences with backoff timers are reproduced) and (b) by a seeded random generator (framing, reorg "
        "de-duplication across nodes, connection life cycle, gossip / head bookkeeping around the one-epoch trim, every "
        "malformation).  Recorded: every connect with its request, every subscriber call with its arguments, the listener's "
        "prometheus series after every chunk, every hang-up by the client.  Every trace validated by SSETrace.tla")
ASSUMPTIONS = [
    "testing/synctest virtual time stands in for real time; net.Pipe + the real net/http client and server stand in for TCP "
    "(a connection reset is a net.OpError{ECONNRESET} from the connection's Read)",
    "the listener's histograms and the head-slot gauge are read through promauto.NewRegistry (no hook): delays are judged in ms",
    "handling one dispatched event is atomic in the model; handleHeadEvent takes the listener's mutex twice (bookkeeping, then "
    "notification) -- interleaving two clients between the two sections only permutes independent effects",
    "line descriptors (which field, which payload class) are produced next to the bytes by the generator (render functions of "
    "checks/grow_sse.py); the executor checks that the number of line feeds of a chunk matches the descriptors",
    "a head event that finds no gossip entry of its slot and address may or may not trim old entries (as coded it does not; the "
    "comment in the code wants old entries gone)",
    "subscribers are called in the order of their registration (as coded)",
    "slots above 2^31 are only used where the event is rejected; all times stay below 2^31 ms",
]

FINDINGS = {
    "F1": ("GROW-SSE-badevent-kills", {"badevent"},
           "one malformed head / chain_reorg / block_gossip / block event (bad JSON, slot / depth / root that does not parse, "
           "depth > slot) makes the listener's handler return an error, client.start returns it, the goroutine of that beacon "
           "node logs 'Failed to start SSE client' and ends: no later event of that node is delivered until charon restarts"),
    "F2": ("GROW-SSE-status-kills", {"status"},
           "a non-200 answer to the subscription request (503 / 502 of a proxy while the beacon node restarts) is not retried: "
           "client.start returns 'invalid response status code' and the subscription of that node is gone for good"),
    "F3": ("GROW-SSE-readerr-kills", {"readerr", "partial"},
           "a read error other than io.EOF / io.ErrUnexpectedEOF (connection reset by peer) and a clean end of the stream inside a "
           "line ('incomplete event at the end of the stream') end the client for good instead of reconnecting"),
    "F4": ("GROW-SSE-reorg-dedup", {"dedup"},
           "chain reorgs are de-duplicated by comparing the reorg epoch with the epoch of the last notification (initially 0): a "
           "DIFFERENT reorg in the same epoch is swallowed (duties cache, scheduler and the fetcher's early attestation data are "
           "not invalidated), a reorg back to epoch 0 is never notified, and one reorg is notified twice when another epoch is "
           "reported in between (A:R1 A:R2 B:R1)"),
}
ALLDEV = {"badevent", "status", "readerr", "partial", "dedup"}


def cfg_text(dev):
    return "\n".join(["SPECIFICATION TraceSpec", "CONSTANTS", " Addrs = {1, 2, 3}", " DefaultRetry = 1000", " Slack = 2", " FreeMax = 8000",
                      " Dev = {%s}" % ", ".join('"%s"' % d for d in sorted(dev)), ' TrimOn = "either"', ' Defect = "none"',
                      "CONSTRAINT Mark", "POSTCONDITION Report", "CHECK_DEADLOCK FALSE", ""])


def cfg_for(dev):
    return ("SSETrace_%s.cfg" % ("_".join(sorted(dev)) or "contract"), cfg_text(dev))


_dev = {"flags": set(ALLDEV)}      # the deviations the probes confirmed on the tree under test


def cfg_of(_t=None):
    return cfg_for(_dev["flags"])


# ----------------------------------------------------------------------------------------------------------------------
# rendering: descriptors (what SSE.tla reads) and bytes (what the executor writes) are made side by side
# ----------------------------------------------------------------------------------------------------------------------
def root_of(tag):
    return hashlib.sha256(("root-%s" % tag).encode()).hexdigest()


ROOTS = [root_of(i) for i in range(6)]
GARB = {"shape": "garbage", "slot": {"k": "bad", "v": 0}, "depth": {"k": "bad", "v": 0}, "root": {"k": "bad", "v": ""}, "id": "", "r": ""}
TOPICS = ["head", "chain_reorg", "block_gossip", "block"]
BAD_NUM = ["neg", "hex", "empty", "word", "space", "float", "big64", "missing", "null", "plus"]
BAD_ROOT = ["short", "long", "odd", "nonhex", "missing", "empty", "0X", "0xonly"]
BAD_SHAPE = ["str", "arr", "num", "null", "trunc", "trail", "garb", "badtype"]


def num_text(kind, v):
    """JSON text of a numeric-string member (None: the member is left out)"""
    return {"plain": '"%d"' % v, "pad": '"00%d"' % v, "neg": '"-1"', "hex": '"0x10"', "empty": '""', "word": '"ten"', "space": '" %d"' % v,
            "float": '"%d.0"' % v, "big64": '"18446744073709551616"', "big63": '"9223372036854775808"', "missing": None,
            "null": "null", "plus": '"+%d"' % v}[kind]


def num_desc(kind, v):
    if kind in ("plain", "pad"):
        return {"k": "ok", "v": v}
    return {"k": "big63" if kind == "big63" else "bad", "v": 0}


def root_text(kind, h):
    return {"std": '"0x%s"' % h, "noprefix": '"%s"' % h, "upper": '"0x%s"' % h.upper(), "short": '"0x%s"' % h[:62], "long": '"0x%s00"' % h,
            "odd": '"0x%s"' % h[:63], "nonhex": '"0x%sg%s"' % (h[:10], h[11:]), "missing": None, "empty": '""', "0X": '"0X%s"' % h,
            "0xonly": '"0x"'}[kind]


def root_desc(kind, h):
    return {"k": "ok", "v": "0x" + h} if kind in ("std", "noprefix", "upper") else {"k": "bad", "v": ""}


def payload(r, topic, slot=("plain", 1), depth=("missing", 0), root=("missing", ROOTS[0]), rid="", shape="obj", style=None, pad=0):
    """-> (descriptor, members) where members = list of JSON member texts (shape obj) or [text] (anything else)"""
    style = "std" if shape != "obj" else style or r.choice(["std", "std", "shuffle", "casekeys", "extra", "spaces"])
    desc = {"shape": shape, "slot": num_desc(*slot), "depth": num_desc(*depth), "root": root_desc(*root), "id": rid,
            "r": "%s/%s/%s/%s/%s" % (topic, slot[0], depth[0], root[0], style)}
    key = (lambda k: k.capitalize()) if style == "casekeys" else (lambda k: k)
    mem = []

    def add(k, txt):
        if txt is not None:
            mem.append('"%s":%s%s' % (key(k), " " if style == "spaces" else "", txt))
    add("slot", num_text(*slot))
    if topic == "chain_reorg":
        add("depth", num_text(*depth))
        add("old_head_block", '"0x%s"' % root_of(rid + "/old"))
        add("new_head_block", '"0x%s"' % root_of(rid + "/new"))
        add("old_head_state", '"0x%s"' % root_of(rid + "/olds"))
        add("new_head_state", '"0x%s"' % root_of(rid + "/news"))
        add("epoch", '"%d"' % r.randint(0, 9))
        add("execution_optimistic", "false")
    else:
        add("block", root_text(*root))
        if topic == "head":
            add("state", '"0x%s"' % root_of("state"))
            add("epoch_transition", r.choice(["false", "true"]))
            add("previous_duty_dependent_root", '"0x%s"' % root_of("pddr"))
            add("current_duty_dependent_root", '"0x%s"' % root_of("cddr"))
        if topic in ("head", "block"):
            add("execution_optimistic", "false")
    if style == "extra":
        mem.insert(r.randint(0, len(mem)), '"zzz_unknown":{"a":[1,2,{"b":null}],"sl":"77"}')
    if pad:
        mem.insert(r.randint(0, len(mem)), '"padding":"%s"' % ("x" * pad))
    if style == "shuffle":
        r.shuffle(mem)
    if shape == "obj":
        return desc, mem
    body = "{" + ",".join(mem) + "}"
    txt = {"str": '"error"', "arr": "[" + body + "]", "num": "42", "null": "null", "trunc": body[:max(2, len(body) * 2 // 3)],
           "trail": body + " x", "garb": "event stream hiccup", "badtype": "{" + ",".join(['"slot":5'] + mem[1:]) + "}"}[shape]
    desc = dict(GARB, shape=shape, r=desc["r"])
    return desc, [txt]


def inside_strings(txt):
    """positions strictly inside the string literals of a JSON text (no escapes in the texts made here)"""
    out, start = [], None
    for i, c in enumerate(txt):
        if c == '"':
            if start is None:
                start = i
            else:
                out += list(range(start + 2, i)) if i - start >= 3 else []
                start = None
    return out


def pieces(r, desc, mem, n=1, cut="tok"):
    """the data lines of a payload: [(piece descriptor fields, text)]; cut "tok": between members, "str": the first cut is inside a token"""
    if desc["shape"] != "obj":
        txt = mem[0]
        if n <= 1 or len(txt) < 4:
            return [({"pl": desc, "i": 1, "n": 1, "cut": "tok"}, txt)]
        k = r.randint(1, len(txt) - 1)
        return [({"pl": desc, "i": 1, "n": 2, "cut": "str"}, txt[:k]), ({"pl": desc, "i": 2, "n": 2, "cut": "tok"}, txt[k:])]
    n = max(1, min(n, len(mem)))
    # cut positions between members (after the comma)
    cuts = sorted(r.sample(range(1, len(mem)), n - 1)) if n > 1 else []
    parts, prev = [], 0
    for c in cuts + [len(mem)]:
        parts.append(",".join(mem[prev:c]) + ("," if c < len(mem) else ""))
        prev = c
    parts[0] = "{" + parts[0]
    parts[-1] = parts[-1] + "}"
    kinds = ["tok"] * len(parts)
    if cut == "str":
        # move the first boundary into the middle of a string token: the last member of the first part is split
        a = parts[0]
        k = r.choice(inside_strings(a))      # inside a string literal (a key at least)
        if len(parts) == 1:
            parts = [a[:k], a[k:]]
            kinds = ["str", "tok"]
        else:
            parts[1] = a[k:] + parts[1]
            parts[0] = a[:k]
            kinds[0] = "str"
    n = len(parts)
    return [({"pl": desc, "i": i + 1, "n": n, "cut": kinds[i]}, parts[i]) for i in range(n)]


def ln(f, text, **kw):
    d = {"f": f, "nc": False, "sp": 1, "v": "", "pl": GARB, "i": 0, "n": 0, "cut": "tok", "ms": 0, "okn": False}
    d.update(kw)
    return (d, text)


def ev_line(r, topic, sp=None):
    sp = r.choice([0, 1, 1, 1]) if sp is None else sp
    return ln("event", "event:" + " " * sp + topic, v=topic, sp=sp)


def data_lines(r, ps):
    out = []
    for d, txt in ps:
        sp = r.choice([0, 1, 1, 1, 2])
        out.append(ln("data", "data:" + " " * sp + txt, sp=sp, **d))
    return out


BLANK = ln("blank", "")


def noise(r):
    """a line that must not change anything (except retry)"""
    k = r.choice(["comment", "comment", "id", "other", "other", "nocolon", "retrybad", "emptydata", "nocolondata", "upper"])
    if k == "comment":
        return ln("comment", r.choice([":", ": keep-alive", ":data: {\"slot\":\"1\"}", ": event: head", "::"]))
    if k == "id":
        return ln("id", r.choice(["id: 42", "id:", "id: a:b"]))
    if k == "other":
        return ln("other", r.choice(["foo: bar", "datax: {}", " data: {}", "events: head", "eventhead", "retry : 5", "event : head"]))
    if k == "upper":
        return ln("other", r.choice(["Data: {\"slot\":\"1\"}", "Event: head", "DATA: x", "Retry: 1"]))
    if k == "nocolon":
        return ln("other", r.choice(["foo", "id", "retry"]))
    if k == "retrybad":
        return ln("retry", "retry:" + r.choice([" soon", " 1.5", "", " 99999999999999999999", " 1e3", " 5 "]))
    if k == "emptydata":
        return ln("data", r.choice(["data:", "data: "]), sp=1)
    return ln("data", "data", nc=True)


def retry_line(ms):
    return ln("retry", "retry: %d" % ms, ms=ms, okn=True)


def frame(r, topic, pl, n=1, cut="tok", noisy=0.3, evsp=None, dupevent=None):
    """event + data line(s) + blank, with noise lines in between"""
    desc, mem = pl
    body = data_lines(r, pieces(r, desc, mem, n, cut))
    ev = [ev_line(r, topic, evsp)]
    if dupevent:
        ev = [ev_line(r, dupevent)] + ev              # the last event field wins
    lines = ev + body if r.random() < 0.85 else body[:1] + ev + body[1:] if len(body) > 1 else body + ev
    out = []
    for x in lines:
        while r.random() < noisy:
            out.append(noise(r))
        out.append(x)
    while r.random() < noisy:
        out.append(noise(r))
    return out + [BLANK]


def render(r, lines, crlf=None):
    """-> [(descriptor, bytes incl. terminator)]"""
    out = []
    for d, txt in lines:
        term = "\r\n" if (crlf if crlf is not None else r.random() < 0.1) else "\n"
        out.append((d, txt + term))
    return out


def cut_positions(r, data, marks, mode):
    n = len(data)
    if n <= 1 or mode == "whole":
        return []
    if mode == "line":
        return [m for m in marks if m < n]
    if mode == "byte":
        return list(range(1, n))
    if mode == "class":          # at every position class of a line: after the field name, after the colon, after the blank, before CR, between CR and LF
        pos = set()
        for m in re.finditer(r"(?m)^([a-z]*)(:)?( )?", data):
            pos.update([m.end(1), m.end(0), m.start()])
        pos.update(i for i, c in enumerate(data) if c in "\r\n")
        pos.update(i + 1 for i, c in enumerate(data) if c in "\r\n")
        pos = [p for p in pos if 0 < p < n]
        return sorted(r.sample(pos, min(len(pos), r.randint(1, 12))))
    k = r.choice([1, 2, 3, 5, 8])
    return sorted(set(r.randint(1, n - 1) for _ in range(k)))


def chunk_steps(r, a, rl, t, mode=None, gap=None, skip=0):
    """Chunk steps for the rendered lines rl of address a starting at time t (ms) -> (steps, end time, pending line?);
    skip: that many bytes (less than the first line) have been written before"""
    mode = mode or r.choice(["whole", "whole", "line", "rand", "rand", "rand", "class", "byte" if sum(len(b) for _, b in rl) < 700 and r.random() < 0.5 else "rand"])
    data = "".join(b for _, b in rl)
    ends, p = [], 0
    for _, b in rl:
        p += len(b)
        ends.append(p)
    cuts = cut_positions(r, data, ends, mode) + [len(data)]
    steps, prev, li, pend = [], skip, 0, skip > 0
    for c in cuts:
        if c <= prev:
            continue
        done = []
        while li < len(ends) and ends[li] <= c:
            done.append(rl[li][0])
            li += 1
        cont, pend = pend, data[c - 1] != "\n"
        steps.append({"ev": "Chunk", "at": t, "a": a, "b": data[prev:c], "ln": done, "part": pend, "cont": cont})
        prev = c
        g = gap if gap is not None else r.choice([0, 0, 0, 1, 7, 50, 400])
        t += g
    return steps, t, pend


# ----------------------------------------------------------------------------------------------------------------------
# (b) seeded random schedules
# ----------------------------------------------------------------------------------------------------------------------
ADDR_FORMS = ["bn%d:505%d", "bn%d:505%d", "http://bn%d:505%d", "http://bn%d:505%d/", "http://bn%d:505%d/some/prefix?x=1"]


def mkcfg(r, n, tag, slotms=12000, spe=32, cur=10, into=0, bad=(), rfp=None, dials=None, drain=None, hdrok=True):
    """n addresses; at time 0 the chain is `into` ms into slot `cur`"""
    addrs, akind, hosts = [], [], []
    for i in range(1, n + 1):
        if i in bad:
            addrs.append("http://bn%d :505%d" % (i, i))
            akind.append("bad")
            hosts.append("")
        else:
            addrs.append(r.choice(ADDR_FORMS) % (i, i))
            akind.append("ok")
            hosts.append("bn%d" % i)
    hdr = ["X-Verif=abc"] + (["Authorization=Basic Zm9vOmJhcg=="] if r.random() < 0.3 else [])
    if not hdrok:
        hdr = r.choice([["X-Verif"], ["X-Verif=abc", "=x"], ["a=b,c=d"]])
    return {"ev": "Cfg", "tag": tag, "addrs": addrs, "akind": akind, "hosts": hosts, "slotms": slotms, "spe": spe,
            "gen": -(cur * slotms + into), "rfp": r.choice([500, 500, 0, 999, 250, -1]) if rfp is None else rfp, "hdrok": hdrok,
            "headers": hdr, "dials": dials or {}, "drain": drain if drain is not None else r.choice([2500, 6000])}


def slot_at(cfg, t):
    return (t - cfg["gen"]) // cfg["slotms"]


def finish(cfg, steps):
    """Start first, the rest ordered by time (stable)"""
    head = [s for s in steps if "at" not in s]
    rest = sorted([s for s in steps if "at" in s], key=lambda s: s["at"])
    return [cfg] + head + rest


def subs(r, late=False):
    out = [{"ev": "Sub", "kind": "head", "id": 1}, {"ev": "Sub", "kind": "reorg", "id": 1}]
    if r.random() < 0.4:
        out.append({"ev": "Sub", "kind": r.choice(["head", "reorg"]), "id": 2})
    r.shuffle(out)
    ids = {"head": 0, "reorg": 0}
    for s in out:       # ids count up per kind in the order of registration
        ids[s["kind"]] += 1
        s["id"] = ids[s["kind"]]
    return out


def good(r, cfg, topic, t, slot=None, rid=None, depth=None, rootkind=None, **kw):
    slot = slot_at(cfg, t) + r.choice([0, 0, 0, -1, 1]) if slot is None else slot
    slot = max(0, slot)
    sk = (r.choice(["plain", "plain", "plain", "pad"]), slot)
    if topic == "chain_reorg":
        d = r.choice([1, 1, 2, 3, min(slot, cfg["spe"] + 1)]) if depth is None else depth
        d = min(d, slot)
        return payload(r, topic, slot=sk, depth=("plain", d), rid=rid or "r%d" % r.randint(1, 5), **kw)
    return payload(r, topic, slot=sk, root=(rootkind or r.choice(["std", "std", "noprefix", "upper"]), r.choice(ROOTS)), **kw)


def bad_payload(r, cfg, topic, t, what=None):
    """a payload of `topic` with exactly one malformation"""
    slot = max(1, slot_at(cfg, t))
    menu = ["shape:" + x for x in BAD_SHAPE] + ["slot:" + x for x in BAD_NUM]
    if topic == "head":
        menu += ["root:" + x for x in BAD_ROOT] + ["slot:big63"]
    if topic == "chain_reorg":
        menu += ["depth:" + x for x in BAD_NUM] + ["depth:exceeds", "depth:exceeds"]
    what = what or r.choice(menu)
    k, x = what.split(":")
    kw = dict(slot=("plain", slot), root=("std", r.choice(ROOTS)), rid="rb%d" % r.randint(1, 3))
    if topic == "chain_reorg":
        kw["depth"] = ("plain", 1)
    if k == "shape":
        kw["shape"] = x
    elif k == "slot":
        kw["slot"] = (x, slot)
    elif k == "root":
        kw["root"] = (x, r.choice(ROOTS))
    elif x == "exceeds":
        kw["depth"] = ("plain", slot + r.choice([1, 1, 5]))
    else:
        kw["depth"] = (x, 1)
    return payload(r, topic, **kw), what


def harmless_frame(r, cfg, t):
    """lines that must not notify anybody and must not end the client"""
    k = r.choice(["unknown", "unknown", "nodata", "noevent", "blank", "noise", "evsp2", "emptydata", "unknownbad", "nocolonevent"])
    if k == "unknown":
        topic = r.choice(["finalized_checkpoint", "Head", "head ", "heads", "message", "", "HEAD", "chain_reorgs", "block_gossip2", "attestation"])
        return frame(r, topic, good(r, cfg, r.choice(TOPICS), t))
    if k == "unknownbad":
        return frame(r, "finalized_checkpoint", payload(r, "head", shape=r.choice(BAD_SHAPE)))
    if k == "nodata":
        return [ev_line(r, r.choice(TOPICS)), BLANK]
    if k == "noevent":
        return data_lines(r, pieces(r, *good(r, cfg, r.choice(TOPICS), t))) + [BLANK]
    if k == "blank":
        return [BLANK] * r.randint(1, 3)
    if k == "noise":
        return [noise(r) for _ in range(r.randint(1, 4))] + [BLANK]
    if k == "evsp2":
        return frame(r, r.choice(TOPICS), good(r, cfg, "head", t), evsp=2)
    if k == "emptydata":
        return [ev_line(r, r.choice(TOPICS)), ln("data", "data:"), ln("data", "data", nc=True), BLANK]
    return [ln("event", "event", v="head", nc=True)] + data_lines(r, pieces(r, *good(r, cfg, "head", t))) + [BLANK]


def good_frame(r, cfg, t, topic=None, **kw):
    topic = topic or r.choice(["head", "head", "chain_reorg", "block_gossip", "block"])
    n = r.choice([1, 1, 1, 2, 3, 4])
    return frame(r, topic, good(r, cfg, topic, t, **kw), n=n, cut="tok", dupevent=r.choice([None] * 6 + ["block", "nonsense"]))


def stream(r, cfg, a, t0, nframes, big, fatal=0.15, gapmax=3000):
    """a sequence of frames for address a -> Chunk steps"""
    steps, t = [], t0
    for i in range(nframes):
        x = r.random()
        if x < 0.5:
            fr = good_frame(r, cfg, t)
        elif x < 0.85:
            fr = harmless_frame(r, cfg, t)
        elif x < 0.92:
            fr = [retry_line(r.choice([0, 1, 50, 300, 1000, 1500, 3000, -5]))] + ([BLANK] if r.random() < 0.5 else [])
        elif x < 0.92 + fatal / 2:
            topic = r.choice(TOPICS)
            fr = frame(r, topic, bad_payload(r, cfg, topic, t)[0], n=r.choice([1, 1, 2]))
        elif x < 0.92 + fatal:
            topic = r.choice(["head", "chain_reorg", "block"])
            fr = frame(r, topic, good(r, cfg, topic, t), n=2, cut="str")        # a payload cut inside a JSON token
        else:
            topic = r.choice(TOPICS)
            fr = frame(r, topic, good(r, cfg, topic, t, pad=r.choice([5000, 9000, 70000 if big else 12000])))      # oversize line
        st, t, _ = chunk_steps(r, a, render(r, fr, crlf=r.choice([False, False, False, True, None])), t)
        steps += st
        t += r.choice([0, 0, 1, 10, 500, r.randint(0, gapmax)])
    return steps, t


def sc_framing(r, big):
    slotms, spe = r.choice([(12000, 32), (6000, 8), (2000, 4)])
    n = r.choice([1, 1, 2])
    cfg = mkcfg(r, n, "framing", slotms, spe, cur=r.randint(3, 40), into=r.randint(0, slotms - 1))
    steps = [{"ev": "Start"}] + subs(r)
    for a in range(1, n + 1):
        steps += stream(r, cfg, a, r.choice([0, 5, 100]), r.randint(2, 7), big)[0]
    return finish(cfg, steps)


def sc_reorg(r, big):
    """the same and different reorgs reported by several beacon nodes in every interleaving"""
    spe = r.choice([4, 8, 32])
    slotms = r.choice([12000, 2000])
    n = r.choice([2, 2, 3])
    cur = r.randint(3 * spe, 5 * spe)
    cfg = mkcfg(r, n, "reorg", slotms, spe, cur=cur, into=r.randint(0, slotms - 1))
    e0 = (cur // spe) * spe          # first slot of the current epoch
    pool = [("A", e0 + 1, 1), ("B", e0 + 2, 1), ("C", e0 + 2, 2), ("D", e0 + 1, spe), ("E", e0 + 1, 2 * spe + 1), ("Z", spe + 1, spe + 1),
            ("Y", spe - 1, 1), ("A2", e0 + 1, 1)]
    pool = [(i, max(s, 1), d) for i, s, d in pool]
    reorgs = r.sample(pool, r.choice([2, 2, 3, 4]))
    steps = [{"ev": "Start"}]
    ss = subs(r)
    late = r.random() < 0.3
    if not late:
        steps += ss
    evs = []
    for a in range(1, n + 1):
        mine = [x for x in reorgs if r.random() < 0.8]
        if r.random() < 0.3:
            r.shuffle(mine)
        if r.random() < 0.2 and mine:
            mine.append(mine[0])          # a node repeats itself (reconnect-like)
        evs.append(mine)
    t = 100
    order = [a for a in range(1, n + 1) for _ in evs[a - 1]]
    r.shuffle(order)
    idx = [0] * n
    for k, a in enumerate(order):
        if late and k == len(order) // 2:
            for s in ss:
                steps.append(dict(s, at=t))
        rid, slot, depth = evs[a - 1][idx[a - 1]]
        idx[a - 1] += 1
        fr = frame(r, "chain_reorg", payload(r, "chain_reorg", slot=("plain", slot), depth=("plain", depth), rid=rid), noisy=0.1)
        if r.random() < 0.15:
            fr = good_frame(r, cfg, t, topic="head") + fr
        steps += chunk_steps(r, a, render(r, fr, crlf=False), t, mode=r.choice(["whole", "whole", "rand"]), gap=0)[0]
        t += r.choice([0, 0, 1, 300, 4000])
    return finish(cfg, steps)


def sc_life(r, big):
    """what a connect is answered with, how streams end, retry fields, reconnects, cancellation"""
    n = r.choice([1, 2, 2, 3])
    dials = {}
    for a in range(1, n + 1):
        sc = []
        for _ in range(r.choice([0, 0, 1, 2, 3, 4])):
            x = r.random()
            sc.append({"how": "refuse", "code": 0} if x < 0.45 else {"how": "http", "code": 200} if x < 0.8
                      else {"how": "http", "code": r.choice([503, 503, 502, 500, 404, 429, 204])})
        dials[str(a)] = sc
    cfg = mkcfg(r, n, "life", cur=r.randint(3, 30), into=r.randint(0, 11999), dials=dials, bad=(n,) if n == 3 and r.random() < 0.5 else (),
                drain=r.choice([2500, 6000, 6000]))
    steps = [{"ev": "Start"}] + subs(r)
    tmax = 0
    for a in range(1, n + 1):
        t = r.choice([0, 10, 1000, 1001, 2600, 4600])
        for _ in range(r.randint(1, 5)):
            x = r.random()
            if x < 0.35:
                st, t = stream(r, cfg, a, t, r.randint(1, 2), big, fatal=0.05, gapmax=300)
                steps += st
            elif x < 0.5:
                steps += chunk_steps(r, a, render(r, [retry_line(r.choice([0, 1, 300, 1000, 1500, 3000, 5000]))], crlf=False), t, mode="whole")[0]
            elif x < 0.6:      # an incomplete line is left pending
                fr = render(r, good_frame(r, cfg, t), crlf=False)
                data = "".join(b for _, b in fr)
                k = r.randint(1, len(fr[0][1]) - 1)
                steps.append({"ev": "Chunk", "at": t, "a": a, "b": data[:k], "ln": [], "part": True, "cont": False})
                t += r.choice([0, 1, 400])
                if r.random() < 0.6:       # ... and the stream ends inside the line
                    steps.append({"ev": "Close", "at": t, "a": a, "how": r.choice(["eof", "eof", "abrupt", "reset"])})
                    t += r.choice([0, 1000, 1001, 2000])
                else:
                    st, t, _ = chunk_steps(r, a, fr, t, skip=k)
                    steps += st
            else:
                steps.append({"ev": "Close", "at": t, "a": a, "how": r.choice(["eof", "eof", "abrupt", "abrupt", "abrupt", "reset"])})
                t += r.choice([0, 0, 999, 1000, 1001, 1280, 1600, 1920, 2000, 2400, 2401, 3600, r.randint(0, 5000)])
            t += r.choice([0, 0, 1, 250, r.randint(0, 2500)])
        tmax = max(tmax, t)
    if r.random() < 0.4:
        tc = r.randint(0, tmax + 1500)
        steps.append({"ev": "Cancel", "at": tc})
        if r.random() < 0.5:
            steps += stream(r, cfg, 1, tc + r.choice([0, 1, 1000]), 1, big, fatal=0)[0]
    return finish(cfg, steps)


def sc_gossip(r, big):
    """block_gossip / block / head events around the slot start, the matching of head with gossip, the one-epoch trim"""
    spe = r.choice([2, 4, 4, 8])
    slotms = r.choice([12000, 6000, 1000])
    n = r.choice([1, 2, 2])
    cur = r.randint(spe + 1, 4 * spe)
    cfg = mkcfg(r, n, "gossip", slotms, spe, cur=cur, into=r.randint(0, slotms - 1))
    steps = [{"ev": "Start"}] + subs(r)
    t = r.choice([0, 100])
    stored = []
    for _ in range(r.randint(4, 14)):
        a = r.randint(1, n)
        if r.random() < 0.25:      # exactly at a slot boundary / a third of a slot (the limits of the "too late" classification)
            t += (-(t - cfg["gen"])) % slotms + r.choice([0, 0, slotms // 3, -1, 1])
        now_slot = slot_at(cfg, t)
        x = r.random()
        if x < 0.4:
            s = max(0, now_slot + r.choice([0, 0, 0, 1, -1, -spe, -spe - 1, -spe + 1, -2 * spe, 3]))
            stored.append((s, a))
            fr = frame(r, "block_gossip", good(r, cfg, "block_gossip", t, slot=s), noisy=0.1)
        elif x < 0.85:
            if stored and r.random() < 0.7:
                s, a2 = r.choice(stored)
                a = a2 if r.random() < 0.8 else a
                s = s + r.choice([0, 0, 0, spe, spe + 1, spe - 1])
            else:
                s = max(0, now_slot + r.choice([0, 0, 1, -1, -1, spe]))
            rk = None if r.random() < 0.9 else r.choice(BAD_ROOT)
            fr = frame(r, "head", good(r, cfg, "head", t, slot=s, rootkind=rk), noisy=0.1)
        else:
            fr = frame(r, "block", good(r, cfg, "block", t, slot=max(0, now_slot + r.choice([0, -1, 1]))), noisy=0.1)
        st, t2, _ = chunk_steps(r, a, render(r, fr, crlf=False), t, mode=r.choice(["whole", "whole", "line", "rand"]), gap=r.choice([0, 0, 200]))
        steps += st
        t = max(t2, t + r.choice([0, 0, 1, 150, slotms // 3, slotms, slotms - 1, r.randint(0, 2 * slotms)]))
    return finish(cfg, steps)


def sc_bad(r, big):
    """every malformation: a good event, the bad one, good ones again -- on the same node and on another one"""
    n = 2
    slotms, spe = r.choice([(12000, 32), (2000, 4)])
    cfg = mkcfg(r, n, "bad", slotms, spe, cur=r.randint(3, 30), into=r.randint(0, slotms - 1), drain=3000)
    steps = [{"ev": "Start"}] + subs(r)
    t = 50
    topic = r.choice(TOPICS)
    pl, what = bad_payload(r, cfg, topic, t)
    cfg["tag"] = "bad:%s:%s" % (topic, what)
    seq = [(1, good_frame(r, cfg, t)), (2, good_frame(r, cfg, t)), (1, frame(r, topic, pl, n=r.choice([1, 1, 2]), noisy=0.1)),
           (1, good_frame(r, cfg, t + 500)), (2, good_frame(r, cfg, t + 500, topic=r.choice(["head", "chain_reorg"]))),
           (1, good_frame(r, cfg, t + 3000, topic="head"))]
    if r.random() < 0.3:       # the bad event and the next good one arrive in ONE chunk
        seq[2] = (1, seq[2][1] + seq[3][1])
        del seq[3]
    for a, fr in seq:
        steps += chunk_steps(r, a, render(r, fr, crlf=False), t, mode=r.choice(["whole", "whole", "rand"]), gap=0)[0]
        t += r.choice([0, 1, 500, 1100, 2500])
    return finish(cfg, steps)


def sc_start(r, big):
    """StartListener itself: headers that do not parse, addresses url.Parse rejects, subscribers before / after events, early cancel"""
    n = r.choice([1, 2, 3])
    hdrok = r.random() < 0.7
    cfg = mkcfg(r, n, "start", cur=5, into=r.randint(0, 11999), bad=tuple(a for a in range(1, n + 1) if r.random() < 0.3), hdrok=hdrok, drain=2500)
    steps = [{"ev": "Start"}]
    ss = subs(r)
    k = r.randint(0, len(ss))
    steps += ss[:k]
    t = r.choice([0, 5])
    for a in range(1, n + 1):
        steps += stream(r, cfg, a, t, 2, big, fatal=0)[0]
    for s in ss[k:]:
        steps.append(dict(s, at=t + r.randint(0, 800)))
    if r.random() < 0.3:
        steps.append({"ev": "Cancel", "at": r.choice([0, 1, 500])})
    return finish(cfg, steps)


SCENARIOS = [(sc_framing, 5), (sc_reorg, 4), (sc_life, 5), (sc_gossip, 4), (sc_bad, 3), (sc_start, 1)]


def random_schedules(seed, n, big):
    r = vlib.rng(seed, "sse-rnd")
    menu = [f for f, w in SCENARIOS for _ in range(w)]
    return [r.choice(menu)(r, big) for _ in range(n)]


# ----------------------------------------------------------------------------------------------------------------------
# (a) histories of SSEGen -> schedules
# ----------------------------------------------------------------------------------------------------------------------
U = 200   # ms per model time unit (DefaultRetry = 5 units = the 1 s of client.go)
MODEL_ROOT = ROOTS[0]


def model_payload(pl):
    """descriptor (as the trace spec will read it) and member texts of a payload record of SSEMC.tla"""
    d = json.loads(json.dumps(pl))
    if d["root"]["k"] == "ok":
        d["root"]["v"] = "0x" + MODEL_ROOT
    if d["shape"] != "obj":
        return d, ['"error"']
    mem = []
    mem.append('"slot":"%d"' % d["slot"]["v"] if d["slot"]["k"] == "ok" else '"slot":"9223372036854775808"' if d["slot"]["k"] == "big63"
               else '"slot":"ten"')
    if d["depth"]["k"] == "ok":
        mem.append('"depth":"%d"' % d["depth"]["v"])
    if d["id"]:
        mem += ['"old_head_block":"0x%s"' % root_of(d["id"] + "/old"), '"new_head_block":"0x%s"' % root_of(d["id"] + "/new")]
    mem.append('"block":"0x%s"' % MODEL_ROOT if d["root"]["k"] == "ok" else '"block":"0x1234"')
    mem.append('"execution_optimistic":false')
    return d, mem


def model_line(d):
    """(descriptor, text) of a line record of SSEMC.tla"""
    d = json.loads(json.dumps(d))
    f = d["f"]
    if f == "data" and not d["nc"] and d["n"] > 0:
        pl, mem = model_payload(d["pl"])
        d["pl"] = pl
        if pl["shape"] != "obj":
            txt = mem[0] if d["n"] == 1 else (mem[0][:3], mem[0][3:])[d["i"] - 1]
        else:
            t1, t2 = "{" + ",".join(mem[:2]) + ",", ",".join(mem[2:]) + "}"
            txt = "{" + ",".join(mem) + "}" if d["n"] == 1 else t2 if d["i"] == 2 else t1 if d["cut"] == "tok" else t1[:t1.index('"slot"') + 3]
        return d, "data:" + " " * d["sp"] + txt
    d["pl"] = dict(GARB)
    if f == "retry" and d["okn"]:
        d["ms"] = d["ms"] * U
        return d, "retry: %d" % d["ms"]
    txt = {"blank": "", "comment": ": keep-alive", "other": "foo: bar", "id": "id: 1", "retry": "retry: soon",
           "event": "event" if d["nc"] else "event:" + " " * d["sp"] + d["v"], "data": "data" if d["nc"] else "data:"}[f]
    return d, txt


def from_hist(r, hist):
    dials = {"1": [], "2": []}
    for e in hist:
        if e["ev"] == "Dial":
            dials[str(e["a"])].append({"how": e["how"], "code": e["code"]})
    cfg = mkcfg(r, 2, "gen", slotms=4 * U, spe=2, cur=20 // 4, into=0, rfp=500, dials=dials, drain=2600)
    cfg["addrs"], cfg["hosts"], cfg["akind"] = ["bn1:5051", "http://bn2:5052"], ["bn1", "bn2"], ["ok", "ok"]
    cfg["gen"] = -20 * U
    steps, pend = [], {}
    for k, e in enumerate(hist):
        at = e["t"] * U
        if e["ev"] in ("Start", "Cancel"):
            steps.append({"ev": e["ev"], "at": at})
        elif e["ev"] == "Sub":
            steps.append({"ev": "Sub", "at": at, "kind": e["kind"], "id": e["id"]})
        elif e["ev"] == "Close":
            steps.append({"ev": "Close", "at": at, "a": e["a"], "how": e["how"]})
            pend.pop(e["a"], None)
        elif e["ev"] == "Dial":
            pend.pop(e["a"], None)
        elif e["ev"] == "Feed" and not e["lines"]:
            a = e["a"]
            if a in pend:
                continue
            nxt = None
            for j in range(k + 1, len(hist)):
                h = hist[j]
                if h.get("a") == a and h["ev"] in ("Close", "Dial"):
                    break
                if h.get("a") == a and h["ev"] == "Feed" and h["lines"]:
                    nxt = j
                    break
            if nxt is None:
                steps.append({"ev": "Chunk", "at": at, "a": a, "b": 'data: {"sl', "ln": [], "part": True, "cont": False})
                pend[a] = (-1, 0)
            else:
                first = render(r, [model_line(hist[nxt]["lines"][0])], crlf=False)[0][1]
                if len(first) < 2:
                    continue            # a blank line cannot be cut
                cut = r.randint(1, len(first) - 1)
                steps.append({"ev": "Chunk", "at": at, "a": a, "b": first[:cut], "ln": [], "part": True, "cont": False})
                pend[a] = (nxt, cut)
        elif e["ev"] == "Feed":
            a = e["a"]
            j, skip = pend.pop(a, (None, 0))
            if j == -1:
                continue            # the dummy line is never completed: this feed cannot be sent as modelled
            rl = render(r, [model_line(x) for x in e["lines"]], crlf=False)
            steps += chunk_steps(r, a, rl, at, mode=r.choice(["whole", "whole", "rand", "line"]), gap=0, skip=skip if j == k else 0)[0]
    return [cfg] + steps


# ----------------------------------------------------------------------------------------------------------------------
# directed probes: one per named deviation (rejected by the contract, accepted with exactly that deviation switched on)
# ----------------------------------------------------------------------------------------------------------------------
def probes():
    r = vlib.rng(0, "sse-probes")

    def base(n, tag, **kw):
        c = mkcfg(r, n, tag, cur=10, into=3000, rfp=500, drain=12000, **kw)
        c["addrs"], c["hosts"], c["akind"] = ["bn%d:505%d" % (i, i) for i in range(1, n + 1)], ["bn%d" % i for i in range(1, n + 1)], ["ok"] * n
        return c

    def fr(c, a, t, lines):
        return chunk_steps(r, a, render(r, lines, crlf=False), t, mode="whole", gap=0)[0]

    def head(c, t, slot):
        return frame(r, "head", payload(r, "head", slot=("plain", slot), root=("std", ROOTS[1]), style="std"), noisy=0)

    def reorg(c, slot, depth, rid):
        return frame(r, "chain_reorg", payload(r, "chain_reorg", slot=("plain", slot), depth=("plain", depth), rid=rid, style="std"), noisy=0)
    sub = [{"ev": "Start"}, {"ev": "Sub", "kind": "head", "id": 1}, {"ev": "Sub", "kind": "reorg", "id": 1}]
    out = {}
    c = base(1, "probe-F1")
    out["F1"] = [c] + sub + fr(c, 1, 100, head(c, 100, 10)) + \
        fr(c, 1, 200, frame(r, "head", payload(r, "head", shape="str"), noisy=0)) + fr(c, 1, 4000, head(c, 4000, 10))
    c = base(1, "probe-F2", dials={"1": [{"how": "http", "code": 503}]})
    out["F2"] = [c] + sub + fr(c, 1, 2500, head(c, 2500, 10))
    c = base(2, "probe-F3")
    out["F3"] = [c] + sub + fr(c, 1, 100, head(c, 100, 10)) + [{"ev": "Close", "at": 200, "a": 1, "how": "reset"}] + \
        [{"ev": "Chunk", "at": 300, "a": 2, "b": "event: he", "ln": [], "part": True, "cont": False}, {"ev": "Close", "at": 400, "a": 2, "how": "eof"}] + \
        fr(c, 1, 4000, head(c, 4000, 10)) + fr(c, 2, 4000, head(c, 4000, 10))
    c = base(2, "probe-F4", spe=32)
    out["F4"] = [c] + sub + fr(c, 1, 100, reorg(c, 321, 1, "A")) + fr(c, 2, 150, reorg(c, 321, 1, "A")) + fr(c, 1, 200, reorg(c, 322, 1, "B")) + \
        fr(c, 1, 300, reorg(c, 322, 40, "C")) + fr(c, 2, 400, reorg(c, 322, 1, "B")) + fr(c, 2, 500, reorg(c, 40, 20, "D"))
    return out


def confirm_deviations(o):
    """Each directed probe is executed twice.  Rejected by the contract cfg and accepted by the cfg of its named deviation: the
    deviation is (still) in the tree -> KNOWN-FINDING, and it is switched on for the bulk run.  Accepted by the contract cfg: the
    deviation is gone (repaired tree).  Rejected by both: the regular violation path."""
    pr = probes()
    order = sorted(pr)
    scheds = []
    for f in order:
        scheds += [pr[f], pr[f]]
    traces, sids, wall = vlib.run_schedules(o.pid, PKG, "TestExec", scheds, tag="sseprobe", timeout=400)
    if len(traces) != len(scheds):
        raise vlib.Infra("probes: %d schedules gave %d traces" % (len(scheds), len(traces)))
    name = lambda t: t[0]["tag"][len("probe-"):]
    vs = vlib.validate_traces(o.pid, FAMILY, TRACE, cfg_for(set()), traces)
    vd = vlib.validate_traces(o.pid, FAMILY, TRACE, lambda t: cfg_for(FINDINGS[name(t)][1]), traces)
    rej_s = {name(traces[i]) for i, _, _ in vs.rejected}
    acc_s = {name(traces[i]) for i in vs.accepted}
    rej_d = {name(traces[i]) for i, _, _ in vd.rejected}
    o.schedules += len(scheds)
    o.traces += len(traces)
    o.trace_events += sum(len(t) for t in traces)
    o.trace_states += vs.states + vd.states
    flags = set()
    for f in order:
        if f in rej_s and f in acc_s:
            raise vlib.Infra("probe %s: the two executions of one schedule got different verdicts" % f)
        if f in rej_s and f not in rej_d:
            flags |= FINDINGS[f][1]
            o.known.append((FINDINGS[f][0], FINDINGS[f][2]))
        elif f in rej_s:
            vlib.conformance(o, FAMILY, TRACE, cfg_for(set()), PKG, [pr[f]], tag="sseprobe_" + f)
            if not o.violations:
                raise vlib.Infra("probe %s rejected by the contract and by its deviation cfg, but not reproduced" % f)
        else:
            o.notes.append("deviation %s (%s) not observed on this tree: not switched on" % (f, FINDINGS[f][0]))
    o.known.sort()
    o.extra["sse_deviations_confirmed"] = sorted(FINDINGS[f][0] for f in order if FINDINGS[f][1] <= flags)
    _dev["flags"] = flags
    log("[%s] SSE probes: %d executed in %.1fs; deviations confirmed: %s" % (o.pid, len(scheds), wall, " ".join(sorted(flags)) or "none"))


# ----------------------------------------------------------------------------------------------------------------------
# binding self-tests: corrupt one recorded field / drop or move one event of an accepted trace -> must be rejected
# ----------------------------------------------------------------------------------------------------------------------
def mutators():
    def first(t, pred, start=0):
        for k in range(start, len(t)):
            if pred(t[k]):
                return k
        return None

    def out_with(t, kind):
        return first(t, lambda e: e["ev"] == "Out" and any(c["k"] == kind for c in e["calls"]))

    def call_field(kind, field, fn):
        def m(t):
            k = out_with(t, kind)
            if k is None:
                return None
            c = [c for c in t[k]["calls"] if c["k"] == kind][0]
            c[field] = fn(c[field])
            return t
        return m

    def call_dropped(t):
        k = out_with(t, "head")
        if k is None:
            return None
        del t[k]["calls"][0]
        return t

    def call_twice(t):
        k = out_with(t, "reorg")
        if k is None:
            return None
        t[k]["calls"].append(dict(t[k]["calls"][0]))
        return t

    def call_moved(t):
        # a notification recorded one chunk later than the chunk that completed its event
        k = out_with(t, "head")
        j = first(t, lambda e: e["ev"] == "Out", (k or 0) + 1)
        if k is None or j is None:
            return None
        t[j]["calls"] = t[k]["calls"] + t[j]["calls"]
        t[k]["calls"] = []
        return t

    def obs_field(metric, field, d):
        def m(t):
            k = first(t, lambda e: e["ev"] == "Out" and any(x["m"] == metric for x in e["obs"]))
            if k is None:
                return None
            x = [x for x in t[k]["obs"] if x["m"] == metric][0]
            x[field] += d
            return t
        return m

    def obs_dropped(metric):
        def m(t):
            k = first(t, lambda e: e["ev"] == "Out" and any(x["m"] == metric for x in e["obs"]))
            if k is None:
                return None
            t[k]["obs"] = [x for x in t[k]["obs"] if x["m"] != metric]
            return t
        return m

    def gauge(t):
        k = out_with(t, "head")
        if k is None or t[k]["hs"] < 0:
            return None
        t[k]["hs"] += 1
        return t

    def redial_late(t):
        # the first reconnect after a backoff (and everything after it) 700 ms later
        for k, e in enumerate(t):
            if e["ev"] == "Dial" and e["k"] >= 2 and t[k - 1]["t"] < e["t"] and t[0]["rfp"] >= 0:
                for x in t[k:]:
                    x["t"] += 700
                return t
        return None

    def redial_early(t):
        for k, e in enumerate(t):
            if e["ev"] == "Dial" and e["k"] >= 2 and e["t"] - t[k - 1]["t"] >= 600:
                for x in t[k:]:
                    x["t"] -= 500
                return t
        return None

    def redial_dropped(t):
        k = first(t, lambda e: e["ev"] == "Dial" and e["k"] >= 2)
        if k is None:
            return None
        del t[k]
        return t

    def dial_invented(t):
        k = first(t, lambda e: e["ev"] == "Out")
        d = first(t, lambda e: e["ev"] == "Dial" and e["how"] == "http")
        if k is None or d is None:
            return None
        e = dict(t[d], t=t[k]["t"], k=t[d]["k"] + 1, a=t[k]["a"])
        t.insert(k + 1, e)
        return t

    def hangup_dropped(t):
        k = first(t, lambda e: e["ev"] == "Gone")
        if k is None:
            return None
        del t[k]
        return t

    def hangup_invented(t):
        k = first(t, lambda e: e["ev"] == "Out" and not any(x["ev"] == "Gone" and x["a"] == e["a"] for x in t))
        c = first(t, lambda e: e["ev"] == "Chunk")
        if k is None or c is None or t[k]["a"] != t[c]["a"]:
            return None
        t.insert(k, {"ev": "Gone", "a": t[k]["a"], "k": t[c]["k"], "t": t[k]["t"]})
        return t

    def topics(t):
        k = first(t, lambda e: e["ev"] == "Dial" and e["how"] == "http")
        if k is None:
            return None
        t[k]["topics"] = t[k]["topics"][:3] + ["finalized_checkpoint"]
        return t

    def path(t):
        k = first(t, lambda e: e["ev"] == "Dial" and e["how"] == "http")
        if k is None:
            return None
        t[k]["path"] = "/eth/v1/event"
        return t

    def chunk_dropped(t):
        k = first(t, lambda e: e["ev"] == "Chunk" and any(x["f"] == "blank" for x in e["ln"]) and t[0]["tag"] != "x")
        if k is None or not (t[k + 1]["ev"] == "Out" and (t[k + 1]["calls"] or t[k + 1]["obs"])):
            k = first(t, lambda e: e["ev"] == "Out" and (e["calls"] or e["obs"]))
            if k is None:
                return None
            k -= 1
            if t[k]["ev"] != "Chunk":
                return None
        t[k]["ln"] = [x for x in t[k]["ln"] if x["f"] != "blank"]
        return t

    def noconn_invented(t):
        k = first(t, lambda e: e["ev"] == "Chunk")
        if k is None or t[k + 1]["ev"] != "Out":
            return None
        t[k:k + 2] = [{"ev": "NoConn", "a": t[k]["a"], "t": t[k]["t"]}]
        return t

    def start_result(t):
        k = first(t, lambda e: e["ev"] == "Started")
        if k is None:
            return None
        t[k]["ok"] = not t[k]["ok"]
        return t

    return [("head notification with another slot", call_field("head", "slot", lambda v: v + 1)),
            ("head notification with another block root", call_field("head", "root", lambda v: v[:-1] + ("0" if v[-1] != "0" else "1"))),
            ("head notification attributed to another beacon node", call_field("head", "a", lambda v: v % 3 + 1)),
            ("head notification to another subscriber", call_field("head", "sub", lambda v: v + 1)),
            ("reorg notification with another epoch", call_field("reorg", "epoch", lambda v: v + 1)),
            ("a head notification not recorded", call_dropped), ("a reorg notification recorded twice", call_twice),
            ("a notification one chunk late", call_moved),
            ("head delay 1 ms off", obs_field("hd", "sum", 1)), ("block gossip delay 1 ms off", obs_field("bg", "sum", -1)),
            ("block processing time not observed", obs_dropped("pt")), ("block processing time observed twice", obs_field("pt", "cnt", 1)),
            ("reorg depth not observed", obs_dropped("rd")), ("block delay 1 ms off", obs_field("bl", "sum", 1)),
            ("head slot gauge off by one", gauge),
            ("reconnect 700 ms after the backoff ended", redial_late), ("reconnect 500 ms before the backoff ended", redial_early),
            ("a reconnect not recorded", redial_dropped), ("a connect while the stream is open", dial_invented),
            ("hang-up of the client not recorded", hangup_dropped), ("hang-up of a client that goes on", hangup_invented),
            ("subscription request without the block topic", topics), ("subscription request to another path", path),
            ("the blank line of a notifying frame not sent", chunk_dropped), ("an open stream recorded as absent", noconn_invented),
            ("StartListener's result flipped", start_result)]


# ----------------------------------------------------------------------------------------------------------------------
CONTROLS = (("SSEMC_ctl_swallow.cfg", "ReorgCovered", "de-duplication by epoch (as coded): another reorg of the same epoch is swallowed"),
            ("SSEMC_ctl_dup.cfg", "ReorgOnce", "de-duplication by epoch (as coded): one reorg is notified twice"),
            ("SSEMC_ctl_dead.cfg", "ClientAlive", "a handler error ends the client (as coded)"),
            ("SSEMC_ctl_status.cfg", "ClientAlive", "a non-200 status ends the client (as coded)"),
            ("SSEMC_ctl_noTrim.cfg", "TrimBound", "the gossip times are never trimmed"),
            ("SSEMC_ctl_sticky.cfg", "NoSpurious", "the event type survives the dispatch of the event"),
            ("SSEMC_ctl_firstSub.cfg", "HeadDelivered", "only the first subscriber is notified"),
            ("SSEMC_ctl_delay.cfg", "DelayFromSlotStart", "the delay is measured at dispatch, not at receipt of the event field"),
            ("SSEMC_ctl_live.cfg", "temporal", "liveness control: a client that got a 503 is never connected again (as coded)"))
QUICK_MC = ["SSEMC_frame.cfg", "SSEMC_reorg.cfg", "SSEMC_mixed.cfg", "SSEMC_life.cfg", "SSEMC_gossip.cfg", "SSEMC_gossip_either.cfg",
            "SSEMC_split.cfg", "SSEMC_contract.cfg", "SSEMC_contract_reorg.cfg", "SSEMC_live.cfg", "SSEMC_live_ascoded.cfg"]
THOROUGH_MC = ["SSEMC_frame_thorough.cfg", "SSEMC_reorg_thorough.cfg", "SSEMC_mixed_thorough.cfg", "SSEMC_life_thorough.cfg", "SSEMC_life2_thorough.cfg",
               "SSEMC_gossip_thorough.cfg", "SSEMC_gossip_either.cfg", "SSEMC_split.cfg", "SSEMC_contract_thorough.cfg", "SSEMC_contract_reorg.cfg",
               "SSEMC_live_thorough.cfg", "SSEMC_live_ascoded.cfg"]
GENS = ["SSEGen.cfg", "SSEGen_life.cfg", "SSEGen_reorg.cfg"]


def design_check(o, tier, seed):
    """Design check, the controls that MUST be violated and the schedule generation -- independent TLC runs side by side.
    Returns the generated histories as soon as the generation runs are done and a function that waits for the
    model-checking runs and books their results: the conformance runs meanwhile."""
    from concurrent.futures import ThreadPoolExecutor
    thorough = tier == "thorough"
    mains = THOROUGH_MC if thorough else QUICK_MC
    n = 1200 if thorough else 150
    jobs = [("SSEGen", c, dict(simulate="num=%d" % n, depth=90, seed=seed + 1000 * i, workers=1)) for i, c in enumerate(GENS)]
    controls = CONTROLS
    if os.environ.get("VERIF_SSE_NOMC"):      # mutation experiments: the design check does not depend on the tree
        mains, controls = [], ()
    jobs += [("SSEMC", c, dict(workers=WORKERS or (4 if thorough else 2))) for c in mains]
    jobs += [("SSEMC", c, dict(workers=1)) for c, _, _ in controls]
    dirs = [vlib.scratch(o.pid, FAMILY) for _ in jobs]
    ex = ThreadPoolExecutor(max_workers=int(os.environ.get("VERIF_SSE_JOBS", "8")))
    futs = [ex.submit(vlib.tlc, o.pid, FAMILY, j[0], j[1], timeout=1700, sdir=d, **j[2]) for j, d in zip(jobs, dirs)]
    hists, seen = [], set()
    for f in futs[:len(GENS)]:
        g = f.result()
        if g.error or g.timed_out or (g.violation and g.violation != "deadlock"):
            raise vlib.Infra("schedule generation failed: %s\n%s" % (g.summary(), g.out[-2000:]))
        for p in vlib.tagged_prints(g, "SCHED"):
            if p not in seen:
                seen.add(p)
                hists.append(json.loads(p))
    if not hists:
        raise vlib.Infra("schedule generation: no histories")

    def join():
        res = [f.result() for f in futs[len(GENS):]]
        ex.shutdown()
        for cfg, r in zip(mains, res):
            vlib.require_mc_ok(r, cfg)
            o.add_mc("SSE/" + cfg[:-4], r)
        for (cfg, inv, what), r in zip(controls, res[len(mains):]):
            got = r.violation or ("temporal" if "Temporal property AlwaysBack was violated" in r.out else None)
            if got != inv:
                raise vlib.Infra("design-spec control failed: '%s' not caught by %s: %s" % (what, inv, r.summary()))
            o.selftests.append({"control": "SSE spec variant '%s' violates %s" % (what, inv), "rejected_as_required": True})
    return hists, join


def stage(o, tier, seed):
    """Run the SSE family as a stage of a check."""
    t0 = time.time()
    thorough = tier == "thorough"
    hists, join_design = design_check(o, tier, seed)
    confirm_deviations(o)
    r = vlib.rng(seed, "sse-gen")
    r.shuffle(hists)
    hists = hists[:3000 if thorough else 350]
    gen = [from_hist(r, h) for h in hists]
    rnd = random_schedules(seed, 5000 if thorough else 700, thorough)
    o.extra["sse_histories_by_tlc"] = len(gen)
    kw = dict(chunk=60, exec_timeout=1500, tv_timeout=1500)
    vlib.conformance(o, FAMILY, TRACE, cfg_of, PKG, gen, tag="ssegen", **kw)
    vlib.conformance(o, FAMILY, TRACE, cfg_of, PKG, rnd, tag="ssernd", **kw)
    join_design()
    tr = []
    for tag in ("ssegen", "ssernd"):
        tr += vlib.split_traces(vlib.read_ndjson(os.path.join(vlib.workdir(o.pid), "trace_%s.ndjson" % tag)))
    if not o.violations:
        ms = mutators()
        nself = len(o.selftests)
        vlib.binding_selftest(o, FAMILY, TRACE, cfg_of(), tr, ms)
        if len(o.selftests) - nself < len(ms):
            raise vlib.Infra("SSE binding self-test: some negative control found no applicable trace")
    ev = [e for t in tr for e in t]
    outs = [e for e in ev if e["ev"] == "Out"]
    o.extra["sse_chunks"] = sum(1 for e in ev if e["ev"] == "Chunk")
    o.extra["sse_lines"] = sum(len(e["ln"]) for e in ev if e["ev"] == "Chunk")
    o.extra["sse_connects"] = sum(1 for e in ev if e["ev"] == "Dial")
    o.extra["sse_reconnects"] = sum(1 for e in ev if e["ev"] == "Dial" and e["k"] > 1)
    o.extra["sse_head_notifications"] = sum(1 for e in outs for c in e["calls"] if c["k"] == "head")
    o.extra["sse_reorg_notifications"] = sum(1 for e in outs for c in e["calls"] if c["k"] == "reorg")
    o.extra["sse_histogram_observations"] = sum(x["cnt"] for e in outs for x in e["obs"])
    o.extra["sse_client_hangups"] = sum(1 for e in ev if e["ev"] == "Gone")
    log("[%s] SSE stage: %d TLC histories + %d random schedules -> %d traces, %d chunks (%d lines), %d connects, %d + %d notifications, %.0fs"
        % (o.pid, len(gen), len(rnd), len(tr), o.extra["sse_chunks"], o.extra["sse_lines"], o.extra["sse_connects"],
           o.extra["sse_head_notifications"], o.extra["sse_reorg_notifications"], time.time() - t0))


def main(tier="quick", seed=1, pid="GSSE"):
    """Stand-alone driver (the evidence file is written by checks/grow_all.py when the family is registered)."""
    vlib.workdir(pid, fresh=True)
    o = vlib.Outcome(pid, tier, seed)
    try:
        stage(o, tier, int(seed))
    except vlib.Infra as e:
        log("INFRA: %s" % e)
        return 2
    for fid, txt in o.known:
        log("KNOWN-FINDING: property=%s %s: %s" % (pid, fid, txt))
    for path, txt in o.violations:
        log("VIOLATION property=%s replay=%s" % (pid, path))
        log("  " + txt)
    if o.violations:
        return 1
    log("[%s] OK tier=%s seed=%s: %d MC states, %d traces validated, %d self-test controls, %.0fs"
        % (pid, tier, seed, o.states, o.traces, len(o.selftests), time.time() - o.t0))
    return 0


def replay(path):
    rp = json.load(open(path))
    o = vlib.Outcome(rp.get("property", "GSSE"), "quick", 0)
    vlib.conformance(o, FAMILY, rp["trace_module"], cfg_of, rp["pkg"], [rp["schedule"]], tag="replay")
    for p, t in o.violations:
        log("replay: " + t)
    return 1 if o.violations else 0


if __name__ == "__main__":
    import sys
    sys.exit(main(*(sys.argv[1:3] or ["quick", 1])))
