"""NodeSigs - ceremony steps 2..6 of dkg.Run: partial signature exchange and aggregation for deposit data, builder
registrations and the lock hash (dkg/exchanger.go, core/parsigex, core/parsigdb, dkg/dkg.go signAndAgg* / agg*), the node
signature exchange (dkg/nodesigs.go over dkg/bcast) and the final lock.VerifySignatures.

n = 3..4 REAL nodes on go-libp2p mocknet hosts (real exchanger with the verifyPeerShareIdx gate, real bcast component,
real nodeSigBcast, keys / shares / definition from cluster.NewForT) run the unmodified step functions in the order of
Run; one faulty peer is driven piecewise through the same components (swapped / foreign / missing / mis-indexed
partials, forged extra messages, node signatures by another key / over another hash / for another index / the
0xdeadbeef marker).  Oracle: specs/NodeSigs/NodeSigsTrace.tla (every return recorded and judged by the design spec's
invariants I1..I4 + conformance with the transcription of the code).

Use from another check:   import grow_nodesigs; grow_nodesigs.stage(o, tier, seed)
Stand-alone:              python3 -c "import sys; sys.path[:0]=['/verif/tools','/verif/checks']; import grow_nodesigs; sys.exit(grow_nodesigs.main('quick', 1))"
The executor needs the build-tag hook dkg/verif_export_nodesigs.go (pending_hooks/dkg/) in the tree under test.
"""
import json, os, sys, time
from concurrent.futures import ThreadPoolExecutor
import vlib
from vlib import log

FAMILY = "NodeSigs"
PKG = "nodesigs"
TRACE = "NodeSigsTrace"
TCFG = "NodeSigsTrace.cfg"
HOOK = "dkg/verif_export_nodesigs.go"
EXPH = ["dep", "reg", "lock"]
PHASES = EXPH + ["nsig", "verify"]
HONEST = {"kind": "honest", "val": 0, "peer": 0}
STARVE_EX = {"silent", "claim", "drop"}                 # the exchange can never complete: the operator cancels
ABORT_EX = {"swap", "xval", "xvalall", "othermsg"}      # every honest peer's aggregation refuses
STARVE_NS = {"silent", "otherkey", "otherhash", "claim"}

QUICK_MC = [("NodeSigsMC_quick.cfg", 600)]
THOROUGH_MC = [("NodeSigsMC.cfg", 1700), ("NodeSigsMC_combine3.cfg", 900)]   # NodeSigsMC_combine4.cfg (n = 4 with combined plans, 4.4M states, ~18 CPU-min) is an optional deep run
CONTROLS = [("NodeSigsMC_ctl_nogate.cfg", "I2_SenderBound", "verifyPeerShareIdx without the index comparison: a forged claim of an honest peer's share index is admitted"),
            ("NodeSigsMC_ctl_nogate_blame.cfg", "I4_HonestNotBlamed", "... and the honest peer is blamed by the aggregation"),
            ("NodeSigsMC_ctl_noverify.cfg", "I1_LockSound", "--no-verify + 0xdeadbeef marker: a lock with a short, shifted node signature list is written"),
            ("NodeSigsMC_ctl_aggonly.cfg", "I1_LockSound", "only the aggregate verified: partials signed with the shares of other validators pass"),
            ("NodeSigsMC_ctl_groupkey.cfg", "I4_OnlyFaultsFail", "partials checked against the validator group key: fault-free ceremonies abort"),
            ("NodeSigsMC_ctl_reach_lock.cfg", "Reach_NoLock", "reachability: some ceremony writes a lock"),
            ("NodeSigsMC_ctl_reach_short.cfg", "Reach_NoShortList", "reachability: the marker yields a short node signature list"),
            ("NodeSigsMC_ctl_reach_cancel.cfg", "Reach_NoCancel", "reachability: some ceremony stalls and is cancelled")]

RULE = ("NodeSigs stage: schedules = a cluster (n in 3..4, V in 1..2, faulty peer at any position or none) with the faulty peer's "
        "plan per phase (silent / share swapped with another peer / share of another validator (one, all) / other message / "
        "foreign share index / dropped validator / forged extra message for an honest index before the honest peers start; node "
        "signature by another key / over another hash / for another index / 0xdeadbeef marker) and the phases the environment "
        "runs (incl. where the operator cancels a stalled phase); generated (a) by TLC simulation of NodeSigsGen and (b) by a "
        "seeded generator; executed on real exchanger + bcast + nodeSigBcast components over go-libp2p mocknet with the "
        "unmodified step functions of dkg.Run steps 2..6")
ASSUMPTIONS = ["share index of a peer = its peer index + 1 (cluster.NewForT layout); one deposit amount (32 ETH)",
               "the step barrier between the phases is played by the driver (dkg/sync is family DKGSync)",
               "reliable broadcast under the node signatures is C13's business: the faulty peer broadcasts one node signature to everybody",
               "libp2p authenticates the transport sender (forged extra messages are handed to the receivers' real parsigex handler "
               "under the faulty peer's peer id)",
               "as coded: a peer sending the 0xdeadbeef marker makes nodeSigBcast.exchange return n-1 shifted signatures without error; "
               "only lock.VerifySignatures (skipped by --no-verify) refuses the lock (control cfg ctl_noverify)",
               "the exchanger's own timeout (30 s) never fires: a phase the model says cannot complete is cancelled by the driver"]


# ----------------------------------------------------------------------------------------------------------------------
# schedules
# ----------------------------------------------------------------------------------------------------------------------
def flt(kind, val=0, peer=0):
    return {"kind": kind, "val": val, "peer": peer}


def schedule(n, V, f, plan):
    """The phases the environment runs for this plan (rule table = what NodeSigsGen derives from the design spec)."""
    plan = {p: dict(plan.get(p, HONEST)) for p in EXPH + ["nsig"]}
    if f == 0:
        plan = {p: dict(HONEST) for p in plan}
    steps = [{"ev": "Cfg", "n": n, "V": V, "f": f, "plan": plan}]
    for ph in PHASES:
        k = plan[ph]["kind"] if ph != "verify" else "honest"
        if ph in EXPH:
            steps.append({"ev": "Run", "ph": ph, "cancel": k in STARVE_EX})
            if k in STARVE_EX or k in ABORT_EX:
                break
        elif ph == "nsig":
            steps.append({"ev": "Run", "ph": ph, "cancel": k in STARVE_NS})
            if k in STARVE_NS:
                break
        else:
            steps.append({"ev": "Run", "ph": ph, "cancel": False})
    return steps


def ex_faults(n, V, f):
    others = [j for j in range(1, n + 1) if j != f]
    out = [flt("silent")]
    for v in range(1, V + 1):
        out += [flt("swap", v, j) for j in others] + [flt("claim", v, j) for j in others]
        out += [flt("othermsg", v), flt("drop", v)]
        if V >= 2:
            out.append(flt("xval", v))
    if V >= 2:
        out.append(flt("xvalall"))
    return out


def ns_faults(n, f):
    others = [j for j in range(1, n + 1) if j != f]
    return [flt("silent"), flt("otherhash"), flt("marker")] + [flt("otherkey", 0, j) for j in others] + \
        [flt("claim", 0, j) for j in others]


def random_plan(r, n, V, f):
    plan = {}
    b = r.choice(EXPH + ["nsig", "nsig", "none"])
    for ph in EXPH + ["nsig"]:
        if ph == b:
            plan[ph] = r.choice(ex_faults(n, V, f) if ph in EXPH else ns_faults(n, f))
            break
        if ph in EXPH and r.random() < 0.25:
            plan[ph] = flt("forge", 0, r.choice([j for j in range(1, n + 1) if j != f]))
    return plan


def schedules(tier, seed):
    thorough = tier == "thorough"
    r = vlib.rng(seed, "nodesigs")
    shapes = [(3, 1), (3, 2), (4, 1), (4, 2)]
    out = []
    for n, V in shapes:                                       # fault-free, and the marker at a random position
        out.append(schedule(n, V, 0, {}))
        f = r.randint(1, n)
        out.append(schedule(n, V, f, {"nsig": flt("marker"), r.choice(EXPH): flt("forge", 0, r.choice([j for j in range(1, n + 1) if j != f]))}))
    if thorough:
        for n, V in shapes:
            for f in range(1, n + 1):
                for ph in EXPH:
                    for x in ex_faults(n, V, f):
                        out.append(schedule(n, V, f, {ph: x}))
                    for j in range(1, n + 1):
                        if j != f:
                            out.append(schedule(n, V, f, {ph: flt("forge", 0, j)}))
                for x in ns_faults(n, f):
                    out.append(schedule(n, V, f, {"nsig": x}))
    for _ in range(400 if thorough else 90):
        n, V = r.choice(shapes + [(3, 2), (4, 2)])
        f = r.randint(1, n)
        out.append(schedule(n, V, f, random_plan(r, n, V, f)))
    return out


# ----------------------------------------------------------------------------------------------------------------------
# binding self-tests
# ----------------------------------------------------------------------------------------------------------------------
def mutators():
    def phases(t, **kw):
        return [e for e in t if e.get("ev") == "Phase" and all(e.get(k) == v for k, v in kw.items())]

    def blame_other(t):
        for e in phases(t, st="abort"):
            e["blame"] = 1 + (e["blame"] % t[0]["n"])
            return t
        return None

    def pass_with_bad(t):
        for e in phases(t, st="abort"):
            e.update(st="ok", err="", blame=0, lh=1 if e["ph"] == "lock" else 0)
            e.pop("msg", None)
            return t
        return None

    def forge_admitted(t):
        for e in t:
            if e.get("ev") == "Forge" and not e["admitted"]:
                e["admitted"] = True
                return t
        return None

    def drop_start(t):
        if t[0]["f"] != 0:
            return None
        for k, e in enumerate(t):
            if e.get("ev") == "Start" and e["ph"] == "reg":
                del t[k]
                return t
        return None

    def full_list_despite_marker(t):
        if not any(e.get("ev") == "FNSig" and e["sig"]["over"] == "marker" for e in t):
            return None
        for e in phases(t, ph="nsig", st="ok"):
            e["sigs"] = list(range(1, t[0]["n"] + 1))
            return t
        return None

    def short_list_fault_free(t):
        if t[0]["f"] != 0:
            return None
        for e in phases(t, ph="nsig", st="ok"):
            e["sigs"] = e["sigs"][:-1]
            return t
        return None

    def lock_despite_marker(t):
        for e in phases(t, ph="verify", st="fail"):
            e.update(st="ok", err="")
            e.pop("msg", None)
            return t
        return None

    def ctx_without_cancel(t):
        for k, e in enumerate(t):
            if e.get("ev") == "Cancel":
                del t[k]
                return t
        return None

    def early_return(t):
        # a step function returned although the faulty peer's partials never arrived
        for k, e in enumerate(t):
            if e.get("ev") == "Cancel":
                nxt = t[k + 1]
                if nxt.get("ev") == "Phase" and nxt["ph"] in EXPH:
                    nxt.update(st="ok", err="", lh=1 if nxt["ph"] == "lock" else 0)
                    nxt.pop("msg", None)
                    return t[:k] + t[k + 1:]
        return None

    def other_lock_hash(t):
        es = phases(t, ph="lock", st="ok")
        if len(es) >= 2:
            es[-1]["lh"] = 2
            return t
        return None
    return [("abort blames another peer", blame_other), ("a peer passes a phase with a bad partial", pass_with_bad),
            ("forged share index admitted by the gate", forge_admitted), ("Start event dropped", drop_start),
            ("full node signature list despite the marker", full_list_despite_marker),
            ("short node signature list in a fault-free ceremony", short_list_fault_free),
            ("lock verified despite the marker", lock_despite_marker), ("context error without Cancel", ctx_without_cancel),
            ("exchange returned although a peer's partials are missing", early_return),
            ("honest peers assembled different locks", other_lock_hash)]


# ----------------------------------------------------------------------------------------------------------------------
def design_check(o, tier):
    pid = o.pid
    mains = THOROUGH_MC if tier == "thorough" else QUICK_MC
    jobs = [(cfg, vlib.scratch(pid, FAMILY)) for cfg, _, _ in CONTROLS]          # (vlib.scratch is not thread safe)
    main_dirs = [vlib.scratch(pid, FAMILY) for _ in mains]
    with ThreadPoolExecutor(max_workers=len(jobs)) as ex:
        futs = [ex.submit(vlib.tlc, pid, FAMILY, "NodeSigsMC", cfg, workers=2, timeout=600, sdir=d) for cfg, d in jobs]
        for (main_cfg, to), main_dir in zip(mains, main_dirs):
            r = vlib.tlc(pid, FAMILY, "NodeSigsMC", main_cfg, timeout=to, sdir=main_dir, workers=max(4, vlib.NCPU // 2))
            vlib.require_mc_ok(r, main_cfg)
            o.add_mc(main_cfg[:-4], r)
            log("[%s] %s: %s" % (pid, main_cfg, r.summary()))
        for (cfg, inv, what), fu in zip(CONTROLS, futs):
            c = fu.result()
            if c.violation != inv:
                raise vlib.Infra("design-spec control failed: %s (%s) did not violate %s: %s" % (cfg, what, inv, c.summary()))
            o.selftests.append({"control": "spec variant: %s violates %s" % (what, inv), "rejected_as_required": True})


def corner_counts(tr):
    cov = {"locks_written": 0, "aborts_naming_a_peer": 0, "cancelled_phases": 0, "forged_refused": 0, "short_sig_lists": 0,
           "verify_refused": 0, "fault_free_ceremonies": 0}
    for t in tr:
        if t[0].get("f") == 0:
            cov["fault_free_ceremonies"] += 1
        for e in t:
            if e.get("ev") == "Phase":
                if e["ph"] == "verify" and e["st"] == "ok":
                    cov["locks_written"] += 1
                if e["ph"] == "verify" and e["st"] == "fail":
                    cov["verify_refused"] += 1
                if e["st"] == "abort" and e["blame"] > 0:
                    cov["aborts_naming_a_peer"] += 1
                if e["ph"] == "nsig" and e["st"] == "ok" and len(e["sigs"]) < t[0]["n"]:
                    cov["short_sig_lists"] += 1
            elif e.get("ev") == "Cancel":
                cov["cancelled_phases"] += 1
            elif e.get("ev") == "Forge" and not e["admitted"]:
                cov["forged_refused"] += 1
    return cov


def stage(o, tier, seed):
    """Run the NodeSigs family as an extra stage of an existing check (Outcome `o` collects coverage and violations)."""
    t0 = time.time()
    if not os.path.exists(os.path.join(vlib.REPO, HOOK)):
        raise vlib.Infra("NodeSigs stage: the build-tag hook %s is missing in %s (copy /verif/pending_hooks/%s there)"
                         % (HOOK, vlib.REPO, HOOK))
    thorough = tier == "thorough"
    design_check(o, tier)
    scheds, _ = vlib.gen_schedules(o.pid, FAMILY, "NodeSigsGen", "NodeSigsGen.cfg", num=600 if thorough else 70, depth=300,
                                   seed=seed, timeout=600, limit=600 if thorough else 60)
    rnd = schedules(tier, seed)
    env = {"VERIF_PAR": str(max(4, min(12, vlib.NCPU - 4)))}
    vlib.conformance(o, FAMILY, TRACE, TCFG, PKG, scheds, tag="ns_tlcgen", env=env, exec_timeout=900, chunk=60)
    if not o.violations:
        vlib.conformance(o, FAMILY, TRACE, TCFG, PKG, rnd, tag="ns_random", env=env, exec_timeout=900, chunk=60)
    if o.violations:
        return
    tr = vlib.split_traces(vlib.read_ndjson(os.path.join(vlib.workdir(o.pid), "trace_ns_random.ndjson")))
    cov = corner_counts(tr)
    o.extra["nodesigs_corner_counts"] = cov
    if min(cov.values()) == 0:
        raise vlib.Infra("NodeSigs stage: vacuous coverage: %s" % cov)
    vlib.binding_selftest(o, FAMILY, TRACE, TCFG, tr, mutators())
    log("[%s] NodeSigs stage: %d + %d schedules, %s, %.0fs" % (o.pid, len(scheds), len(rnd), cov, time.time() - t0))


def main(tier="quick", seed=1, pid="GNODESIGS"):
    """Stand-alone driver (no evidence file is written: the family is registered as a stage of another check)."""
    vlib.workdir(pid, fresh=True)
    o = vlib.Outcome(pid, tier, seed)
    try:
        stage(o, tier, int(seed))
    except vlib.Infra as e:
        log("INFRA: %s" % e)
        return 2
    for path, txt in o.violations:
        log("VIOLATION property=%s replay=%s" % (pid, path))
        log("  " + txt)
    if o.violations:
        return 1
    log("[%s] OK tier=%s seed=%s: %d MC states, %d traces validated, %.0fs" % (pid, tier, seed, o.states, o.traces, time.time() - o.t0))
    return 0


def replay(path):
    rp = json.load(open(path))
    o = vlib.Outcome(rp.get("property", "GNODESIGS"), "quick", 0)
    vlib.conformance(o, FAMILY, rp["trace_module"], rp["trace_cfg"], rp["pkg"], [rp["schedule"]], tag="replay", env=rp.get("env") or {})
    for p, t in o.violations:
        log("replay: " + t)
    return 1 if o.violations else 0
