"""C01 - a cluster never emits two different signed objects for one duty and validator (core/interfaces.go Wire composing
core/dutydb, core/parsigdb, core/parsigex verification, core/sigagg, core/aggsigdb, broadcaster)."""
import json, os
import vlib
from vlib import log

FAMILY = "Pipeline"
PID = "C01"
TRACE_TMPL = open(os.path.join(vlib.SPECS, FAMILY, "PipelineTrace.cfg.tmpl")).read()
GEN_TMPL = open(os.path.join(vlib.SPECS, FAMILY, "PipelineGen.cfg.tmpl")).read()
RULE = ("schedules = cluster configuration (n=3..7 nodes, threshold cluster.Threshold(n), up to f Byzantine shares, 1..2 "
        "validators, committee layout, AggSigDB v1/v2) + driver actions Decide(node,cand) / VCSign(node,validators,sound?) / "
        "Deliver(exchange message,to) / ByzSign(share,to,{validator: candidate, claimed share}) / Crash(node); generated (a) by "
        "TLC simulation of PipelineGen (n=4, one Byzantine share, 1 and 2 validators) and (b) by a seeded random generator "
        "(late nodes, duplicated/lost/reordered deliveries, Byzantine partials that differ per recipient and arrive before the "
        "honest ones, foreign share claims, conflicting re-stores, a defective local client, crashes, and 'split' schedules in "
        "which consensus itself disagrees), (c) schedules in which the decisions come from the real qbft.Run driven inside the "
        "composition (they must agree); executed on per-node compositions of the real components wired by the real "
        "core.Wire with real threshold BLS keys; distinct = distinct recorded traces")


def nodes_str(n):
    return ", ".join(str(i) for i in range(1, n + 1))


def trace_cfg_of(t):
    r = t[0]
    name = "PipelineTrace_n%d_b%s_v%d.cfg" % (r["n"], "_".join(map(str, r["byz"])), r["nv"])
    return (name, TRACE_TMPL % {"Nodes": nodes_str(r["n"]), "Byz": ", ".join(map(str, r["byz"])), "NV": r["nv"]})


def config_step(r, n, byz, nv):
    return {"ev": "Config", "n": n, "byz": sorted(byz), "nv": nv, "comm": r.choice(["same", "diff"]),
            "q0": r.random() < 0.3, "aggv2": r.random() < 0.5}


def tlc_gen_schedules(seed, nv, genlen, num, limit):
    """Schedules from TLC simulation of PipelineGen for n=4 with Byzantine share 4."""
    d = vlib.scratch(PID, FAMILY)
    open(os.path.join(d, "gen.cfg"), "w").write(GEN_TMPL % {"Nodes": nodes_str(4), "Byz": "4", "NV": nv, "GenLen": genlen,
                                                            "MaxByzMsgs": 4})
    r = vlib.tlc(PID, FAMILY, "PipelineGen", "gen.cfg", simulate="num=%d" % num, depth=genlen + 5, seed=seed, workers=1,
                 timeout=600, sdir=d)
    if r.error or r.timed_out or r.violation:
        raise vlib.Infra("PipelineGen failed: %s\n%s" % (r.summary(), r.out[-2500:]))
    rr = vlib.rng(seed, "c01/gencfg/%d" % nv)
    seen, out = set(), []
    for p in vlib.tagged_prints(r, "SCHED"):
        if p in seen:
            continue
        seen.add(p)
        out.append([config_step(rr, 4, [4], nv)] + json.loads(p))
    rr.shuffle(out)     # neighbouring behaviours differ in their last step only
    return out[:limit]


# Byzantine share sets per cluster size (few, so that the number of trace-spec configurations stays small)
BYZ_SETS = {3: [[]], 4: [[], [4]], 5: [[5]], 6: [[6]], 7: [[7], [6, 7]]}
BYZ_SETS_BIG = {3: [[]], 4: [[], [4], [1]], 5: [[], [5], [2]], 6: [[6], [3]], 7: [[], [7], [6, 7], [1, 4]]}


def random_schedules(seed, count, big):
    r = vlib.rng(seed, "c01/random")
    out = []
    kinds = ["happy", "happy", "equiv", "equiv", "byzfirst", "late", "crash", "restore", "split", "badvc", "mixed", "mixed"]
    for _ in range(count):
        n = r.choice([3, 4, 4, 4, 5, 5, 6, 7, 7] if not big else [3, 4, 4, 5, 5, 6, 6, 7, 7, 7])
        sets = (BYZ_SETS_BIG if big else BYZ_SETS)[n]
        byz = r.choice(sets)
        kind = r.choice(kinds)
        if kind in ("equiv", "byzfirst") and not byz:
            byz = [b for b in sets if b][0] if any(sets) else []
        nv = r.choice([1, 1, 2])
        honest = [i for i in range(1, n + 1) if i not in byz]
        vals = list(range(1, nv + 1))
        steps = [config_step(r, n, byz, nv)]
        agreed = r.choice(["A", "B"])
        decided, signedn, crashed = {}, set(), set()
        outbox = []            # predicted: (from)
        delivered = set()
        late = set(r.sample(honest, r.randint(1, max(1, len(honest) // 3)))) if kind == "late" else set()
        crash_budget = r.randint(1, max(1, (n - 1) // 3)) if kind in ("crash", "mixed") and n > 3 else 0
        bad_node = r.choice(honest) if kind in ("badvc",) or (kind == "mixed" and r.random() < 0.2) else None

        def byz_step(to=None):
            z = r.choice(byz)
            to = to or r.choice(honest)
            bvs = r.sample(vals, r.randint(1, nv))
            batch = []
            for v in sorted(bvs):
                c = r.choice(["A", "B", "A", "B", "C"])
                claim = z if r.random() < 0.8 else r.randint(1, n)
                batch.append({"v": v, "c": c, "claim": claim})
            return {"ev": "ByzSign", "b": z, "to": to, "batch": batch}

        if kind == "byzfirst" and byz:       # the adversary's partials occupy the stores before anything honest arrives
            for to in honest:
                if r.random() < 0.8:
                    steps.append(byz_step(to))
        L = r.randint(3 * n, 9 * n)
        for _step in range(L):
            alive = [i for i in honest if i not in crashed]
            if not alive:
                break
            moves = []
            undec = [i for i in alive if i not in decided and i not in late]
            if undec:
                moves += ["decide"] * 4
            unsigned = [i for i in alive if i in decided and i not in signedn]
            if unsigned:
                moves += ["sign"] * 4
            pend = [(k, to) for k in range(1, len(outbox) + 1) for to in alive if to != outbox[k - 1] and (k, to) not in delivered]
            if pend:
                moves += ["deliver"] * 8
            if delivered:
                moves += ["dup"]
            if signedn:
                moves += ["resign"]
            if byz and kind in ("equiv", "byzfirst", "mixed", "split", "crash", "restore"):
                moves += ["byz"] * (3 if kind in ("equiv", "byzfirst") else 1)
            if decided and kind in ("restore", "mixed"):
                moves += ["restore"] * (2 if kind == "restore" else 1)
            if crash_budget and len(crashed) < crash_budget:
                moves += ["crash"]
            if late and len(decided) >= len(honest) - len(late) and _step > L // 2:
                moves += ["latedecide"] * 6
            if not moves:
                break
            m = r.choice(moves)
            if m == "decide" or m == "latedecide":
                pool = undec if m == "decide" else [i for i in alive if i in late and i not in decided]
                if not pool:
                    continue
                i = r.choice(pool)
                c = agreed if kind != "split" else r.choice(["A", "B"])
                decided[i] = c
                steps.append({"ev": "Decide", "i": i, "c": c})
            elif m == "restore":
                i = r.choice([x for x in alive if x in decided] or alive)
                c = r.choice(["A", "B"]) if r.random() < 0.3 else ("B" if decided.get(i, "A") == "A" else "A")
                decided.setdefault(i, c)
                steps.append({"ev": "Decide", "i": i, "c": c})
            elif m in ("sign", "resign"):
                i = r.choice(unsigned if m == "sign" else [x for x in alive if x in signedn] or alive)
                vs = vals if r.random() < 0.7 else r.sample(vals, r.randint(1, nv))
                good = not (i == bad_node and r.random() < 0.7)
                if set(vs) == set(vals):
                    signedn.add(i)
                outbox.append(i)
                steps.append({"ev": "VCSign", "i": i, "vs": sorted(vs) if r.random() < 0.8 else sorted(vs, reverse=True),
                              "good": good})
            elif m == "deliver":
                k, to = r.choice(pend)
                delivered.add((k, to))
                steps.append({"ev": "Deliver", "k": k, "to": to})
            elif m == "dup":
                k, to = r.choice(sorted(delivered))
                if to in alive:
                    steps.append({"ev": "Deliver", "k": k, "to": to})
            elif m == "byz":
                steps.append(byz_step(r.choice(alive)))
            elif m == "crash":
                i = r.choice(alive)
                crashed.add(i)
                steps.append({"ev": "Crash", "i": i})
        # drain: the late nodes catch up, every message still in flight arrives (some are lost) in random order
        alive = [i for i in honest if i not in crashed]
        if r.random() < 0.75:
            for i in alive:
                if i not in decided:
                    c = agreed if kind != "split" else r.choice(["A", "B"])
                    decided[i] = c
                    steps.append({"ev": "Decide", "i": i, "c": c})
                if i not in signedn:
                    signedn.add(i)
                    outbox.append(i)
                    steps.append({"ev": "VCSign", "i": i, "vs": vals, "good": i != bad_node or r.random() < 0.5})
            pend = [(k, to) for k in range(1, len(outbox) + 1) for to in alive if to != outbox[k - 1] and (k, to) not in delivered]
            r.shuffle(pend)
            loss = r.choice([0.0, 0.0, 0.1, 0.3])
            tail = [{"ev": "Deliver", "k": k, "to": to} for (k, to) in pend if r.random() >= loss]
            if byz and kind in ("equiv", "mixed", "split") and tail:
                for _ in range(r.randint(1, 3)):
                    tail.insert(r.randrange(len(tail) + 1), byz_step(r.choice(alive)))
            steps += tail
        out.append(steps)
    return out


def qbft_schedules(seed, count):
    """The abstract Decide replaced by the real qbft.Run (harness/drv/qbftdrv): different proposals per node, some nodes
    without a proposal, silent Byzantine members, random delivery order with loss; then the signing pipeline runs on
    whatever the members decided.  The trace spec requires these decisions to agree."""
    r = vlib.rng(seed, "c01/qbft")
    out = []
    for _ in range(count):
        n = r.choice([4, 4, 5, 6, 7])
        byz = r.choice(BYZ_SETS[n])
        nv = r.choice([1, 1, 2])
        honest = [i for i in range(1, n + 1) if i not in byz]
        vals = list(range(1, nv + 1))
        inputs = [r.choice(["A", "B", "A", "B", ""]) if i in honest else "" for i in range(1, n + 1)]
        if not any(inputs):
            inputs[honest[0] - 1] = "A"
        cons = {"ev": "Consensus", "inst": r.randint(0, 50), "inputs": inputs, "seed": r.randrange(1 << 30),
                "ploss": r.choice([0, 0, 2, 5]), "steps": 250 * n, "part": [], "heal": 0}
        if r.random() < 0.5:     # a network partition during the first rounds
            cons["part"] = r.sample(honest, len(honest) // 2)
            cons["heal"] = r.randint(20, 120 * n)
        steps = [config_step(r, n, byz, nv), cons]
        signers = r.sample(honest, len(honest))
        tail = [{"ev": "VCSign", "i": i, "vs": vals, "good": True} for i in signers]
        pend = [{"ev": "Deliver", "k": k, "to": to} for k in range(1, len(signers) + 1) for to in honest]
        r.shuffle(pend)
        for b in byz:
            for _ in range(r.randint(0, 2)):
                pend.insert(r.randrange(len(pend) + 1),
                            {"ev": "ByzSign", "b": b, "to": r.choice(honest),
                             "batch": [{"v": v, "c": r.choice(["A", "B"]), "claim": b} for v in vals]})
        # signing and delivery interleave: a delivery of an entry that does not exist yet is a lost message
        k = 0
        while tail or pend:
            if tail and (not pend or r.random() < 0.35):
                steps.append(tail.pop(0))
            else:
                steps.append(pend.pop(0) if r.random() < 0.8 or k == 0 else pend.pop(r.randrange(len(pend))))
            k += 1
        out.append(steps)
    return out


def directed_schedules():
    """A few hand-written corner schedules (n=4, Byzantine share 4): the foreign-root arrival after a group sits at exactly
    t (the re-fire defect of the pinned parsigdb), a two-validator batch with one refused entry that completes the other
    validator's group (the batch-abort defect), SigAgg's verification against a defective local client."""
    cfg1 = {"ev": "Config", "n": 4, "byz": [4], "nv": 1, "comm": "same", "q0": False, "aggv2": False}
    cfg2 = {"ev": "Config", "n": 4, "byz": [4], "nv": 2, "comm": "diff", "q0": False, "aggv2": True}
    dec = [{"ev": "Decide", "i": i, "c": "A"} for i in (1, 2, 3)]
    sgn = lambda vs: [{"ev": "VCSign", "i": i, "vs": vs, "good": True} for i in (1, 2, 3)]
    dl = lambda k, to: {"ev": "Deliver", "k": k, "to": to}
    bz = lambda to, batch: {"ev": "ByzSign", "b": 4, "to": to, "batch": batch}
    return [
        # group {1,2,3}@A complete at node 1, then the Byzantine share brings root B
        [cfg1] + dec + sgn([1]) + [dl(2, 1), dl(3, 1), bz(1, [{"v": 1, "c": "B", "claim": 4}]), bz(1, [{"v": 1, "c": "C", "claim": 4}]),
                                   dl(2, 1)],
        # Byzantine share first with B at node 1 and with A at node 2; honest group completes later; node 2 reaches 4 of A
        [cfg1] + dec + [bz(1, [{"v": 1, "c": "B", "claim": 4}]), bz(2, [{"v": 1, "c": "A", "claim": 4}])] + sgn([1]) +
        [dl(2, 1), dl(3, 1), dl(1, 2), dl(3, 2), dl(1, 3), dl(2, 3), bz(3, [{"v": 1, "c": "B", "claim": 4}])],
        # two validators: node 1 holds Byzantine B for validator 1; a Byzantine batch {v1: A (refused: equivocation), v2: A}
        # completes validator 2's group
        [cfg2] + dec + sgn([1, 2]) + [bz(1, [{"v": 1, "c": "B", "claim": 4}]), dl(2, 1),
                                      bz(1, [{"v": 1, "c": "A", "claim": 4}, {"v": 2, "c": "A", "claim": 4}]), dl(3, 1)],
        # a defective local client at node 1: its group completes with the bad partial -> SigAgg must refuse
        [cfg1] + dec + [{"ev": "VCSign", "i": 1, "vs": [1], "good": False}, {"ev": "VCSign", "i": 2, "vs": [1], "good": True},
                        {"ev": "VCSign", "i": 3, "vs": [1], "good": True}, dl(1, 2), dl(2, 1), dl(3, 1), dl(3, 2),
                        bz(1, [{"v": 1, "c": "A", "claim": 4}]), bz(2, [{"v": 1, "c": "A", "claim": 4}]),
                        {"ev": "VCSign", "i": 1, "vs": [1], "good": True}],
    ]


def mutators():
    def first(t, pred):
        for i, e in enumerate(t):
            if pred(e):
                return i
        return None

    def restore_accepted(t):
        i = first(t, lambda e: e.get("ev") == "Decide" and e.get("err"))
        if i is None:
            return None
        t[i]["err"] = False
        return t

    def emission_dropped(t):
        i = first(t, lambda e: e.get("emit"))
        if i is None:
            return None
        t[i]["emit"] = []
        return t

    def other_root(t):
        i = first(t, lambda e: e.get("emit"))
        if i is None:
            return None
        t[i]["emit"][0]["c"] = "B" if t[i]["emit"][0]["c"] == "A" else "A"
        return t

    def invalid_signature(t):
        i = first(t, lambda e: e.get("emit"))
        if i is None:
            return None
        t[i]["emit"][0]["ok"] = False
        return t

    def emitted_twice(t):
        i = first(t, lambda e: e.get("emit"))
        if i is None:
            return None
        t[i]["emit"] = t[i]["emit"] + t[i]["emit"]
        return t

    def early_emission(t):
        # the emission is reported one delivery to that node earlier: from one partial fewer than the threshold
        i = first(t, lambda e: e.get("ev") == "Deliver" and e.get("emit"))
        if i is None:
            return None
        to = t[i]["to"]
        for j in range(i - 1, 0, -1):
            e = t[j]
            if e.get("ev") in ("Deliver", "ByzSign") and e["to"] == to and not e["emit"]:
                e["emit"], t[i]["emit"] = t[i]["emit"], []
                return t
        return None

    def verification_flipped(t):
        i = first(t, lambda e: e.get("ev") in ("Deliver", "ByzSign") and not e.get("emit"))
        if i is None:
            return None
        t[i]["verr"] = not t[i]["verr"]
        return t

    def wrong_served(t):
        i = first(t, lambda e: e.get("ev") == "VCSign" and not e.get("blocked"))
        if i is None:
            return None
        t[i]["signed"][0] = "B" if t[i]["signed"][0] == "A" else "A"
        return t
    return [("conflicting re-store accepted", restore_accepted), ("emission dropped", emission_dropped),
            ("emitted candidate replaced", other_root), ("emitted signature does not verify", invalid_signature),
            ("object emitted twice", emitted_twice), ("emission one delivery early", early_emission),
            ("exchange verification verdict flipped", verification_flipped), ("client signed something the store did not serve", wrong_served)]


CONTROLS = [("PipelineMC_ctl_thr.cfg", "OneRoot", "threshold ceil(2n/3)-1 (with disagreeing decisions)"),
            ("PipelineMC_ctl_byz.cfg", "OneRoot", "f+1 Byzantine shares (with disagreeing decisions)"),
            ("PipelineMC_ctl_noverify.cfg", "GroupValid", "neither the exchange nor SigAgg verifies"),
            ("PipelineMC_ctl_noaggverify.cfg", "GroupValid", "SigAgg does not verify, one defective local client")]


def run(tier, seed):
    o = vlib.Outcome(PID, tier, seed)
    thorough = tier == "thorough"
    # stage 0: design check
    cfgs = ["PipelineMC_quick.cfg", "PipelineMC_n3.cfg", "PipelineMC_n3v2.cfg"]
    if thorough:
        cfgs += ["PipelineMC_n4free.cfg", "PipelineMC_n5.cfg", "PipelineMC_n4v2.cfg"]
    if os.environ.get("VERIF_SKIP_MC"):      # mutation experiments only: the design check does not depend on the code
        cfgs = []
        o.notes.append("design check skipped (VERIF_SKIP_MC)")
    for cfg in cfgs:
        r = vlib.tlc(PID, FAMILY, "PipelineMC", cfg, timeout=1700)
        vlib.require_mc_ok(r, cfg)
        o.add_mc(cfg[:-4], r)
    for cfg, inv, what in ([] if os.environ.get("VERIF_SKIP_MC") else CONTROLS):
        r = vlib.tlc(PID, FAMILY, "PipelineMC", cfg, timeout=600)
        if r.violation != inv:
            raise vlib.Infra("design-spec control failed: '%s' not caught by %s: %s" % (what, inv, r.summary()))
        o.selftests.append({"control": "spec variant '%s' violates %s" % (what, inv), "rejected_as_required": True})
    if thorough and not os.environ.get("VERIF_SKIP_MC"):
        # n=7 with two Byzantine shares is out of reach exhaustively: random walks of the same model, all invariants
        # evaluated in every visited state (reported separately, not as an exhaustive run)
        r = vlib.tlc(PID, FAMILY, "PipelineMC", "PipelineMC_n7.cfg", simulate="num=4000", depth=80, seed=seed, workers=4,
                     timeout=900)
        if r.violation or r.error or r.timed_out:
            raise vlib.Infra("PipelineMC_n7 simulation failed: %s\n%s" % (r.summary(), r.out[-2000:]))
        import re
        m = re.search(r"The number of states generated: (\d+)", r.out)
        o.extra["simulation"] = [{"config": "PipelineMC_n7", "states_visited": int(m.group(1)) if m else 0,
                                  "wall_s": round(r.wall, 1)}]
    # stage 1: schedules
    g1 = tlc_gen_schedules(seed, 1, 28, 600 if thorough else 120, 2500 if thorough else 130)
    g2 = tlc_gen_schedules(seed, 2, 30, 400 if thorough else 80, 1500 if thorough else 70)
    rnd = random_schedules(seed, 4000 if thorough else 360, thorough)
    qb = qbft_schedules(seed, 800 if thorough else 40)
    # stage 2+3
    kw = dict(chunk=120)
    vlib.conformance(o, FAMILY, "PipelineTrace", trace_cfg_of, "c01", directed_schedules(), tag="directed", **kw)
    vlib.conformance(o, FAMILY, "PipelineTrace", trace_cfg_of, "c01", g1 + g2, tag="tlcgen", **kw)
    vlib.conformance(o, FAMILY, "PipelineTrace", trace_cfg_of, "c01", rnd, tag="random", **kw)
    vlib.conformance(o, FAMILY, "PipelineTrace", trace_cfg_of, "c01", qb, tag="qbft", **kw)
    # the pipeline's first mechanism -- one decided value per duty -- checked on the real qbft.Run against QBFT.tla
    import qbft_common
    qbft_common.consensus_stage(o, seed, thorough)
    # ... and on the real consensus COMPONENTS (what a node's DutyDB is actually handed): safety only
    if not o.violations:
        import conscluster
        conscluster.stage_safety(o, tier, seed)
    # binding negative controls on recorded traces
    tr = vlib.split_traces(vlib.read_ndjson(vlib.workdir(PID) + "/trace_tlcgen.ndjson"))
    tr = [t for t in tr if t[0]["nv"] == 1]
    cfg = trace_cfg_of(tr[0])
    muts = mutators()
    vlib.binding_selftest(o, FAMILY, "PipelineTrace", cfg, tr, muts)
    if len(o.selftests) < (0 if os.environ.get("VERIF_SKIP_MC") else len(CONTROLS)) + len(muts) and not o.violations:
        raise vlib.Infra("binding self-test: some negative control found no applicable trace")
    # the whole composition on real nodes: clusters of real app.Run nodes (real scheduler, fetcher, consensus over libp2p,
    # stores, validator API, exchange, aggregation, broadcaster) under faults, every core.Wire edge call trace-validated
    # against specs/Workflow (value flow, causal order, one root per duty and validator across the cluster)
    if not o.violations:
        import grow_workflow
        nst = len(o.selftests)
        # only the guards that ARE this property's statement (one root per duty and validator across the cluster; what is
        # emitted verifies under the group key) may raise an alarm here; the other guards of Workflow.tla judge mechanisms
        # (./check --grow workflow runs them all)
        if thorough:
            grow_workflow.stage(o, tier, seed, only=grow_workflow.C01_GUARDS)
        else:
            grow_workflow.light_stage(o, seed, only=grow_workflow.C01_GUARDS)
        nst = len(o.selftests) - nst
    nem = 0
    for tag in ("tlcgen", "random", "qbft"):
        for t in vlib.split_traces(vlib.read_ndjson(vlib.workdir(PID) + "/trace_%s.ndjson" % tag)):
            nem += sum(len(e.get("emit") or []) for e in t)
    o.extra["emissions_observed"] = nem
    if nem < 50 and not o.violations:
        raise vlib.Infra("vacuous run: only %d emissions observed" % nem)
    return vlib.finish(o, "model_checking", RULE,
                       ["consensus is abstract: the driver calls the subscribed DutyDB.Store directly (agreement among honest "
                        "decisions is C02/C03's result; schedules of kind 'split' drop even that and OneRoot must still hold)",
                        "Scheduler, Fetcher, Consensus, ValidatorAPI, the ParSigEx transport and the Broadcaster are stubs that only "
                        "remember what core.Wire registers on them; exchange messages travel proto-encoded and are verified with the "
                        "real parsigex.NewEth2Verifier exactly as parsigex.handle does; Wire is used without the tracking / "
                        "async-retry options, so every call chain is synchronous; nothing expires (scripted deadliner)",
                        "crypto abstraction of the spec: a partial verifies iff made with the claimed share over the claimed data; an "
                        "aggregate of t distinct matching verifying partials verifies under the group key (C08); the executor uses "
                        "real herumi BLS and logs only the verification relation",
                        "a defective local client (signature made with a foreign key) models input that bypassed the exchange "
                        "verification, to make SigAgg's verification observable",
                        "design check exhaustive for n=4 (one Byzantine share, V=1; V=2 with full honest batches), n=3, n=5 "
                        "(thorough); conformance n=3..7, up to f Byzantine shares, V<=2, attester duty"])


def replay(path):
    rp = json.load(open(path))
    o = vlib.Outcome(PID, "quick", 0)
    vlib.conformance(o, FAMILY, rp["trace_module"], trace_cfg_of, rp["pkg"], [rp["schedule"]], tag="replay")
    for p, t in o.violations:
        log("replay: " + t)
    return 1 if o.violations else 0
