"""C09 - the aggregator publishes only group-valid signatures over the signed payload (core/sigagg/sigagg.go,
core/eth2signeddata.go, eth2util/signing/signing.go, tbls).  Case-analysis property: the spec contributes the validity
predicate (checked exhaustively against the transcription of sigagg.go), the enumeration of the scenario space and the
oracle for the relations the executor records on the real aggregator with real BLS keys and real signed objects."""
import json
import vlib
from vlib import log

PID = "C09"
FAMILY = "SigAgg"
RULE = ("case = one Aggregate call: object type (attester, proposer full/blinded, exit, randao, builder registration, "
        "aggregator selection, aggregate-and-proof, sync message, sync selection, sync contribution-and-proof) x data version "
        "x fork version of the signing epoch x 1..3 validators, each with a list of partials built from the honest partials "
        "of a subset of the shares by corrupting one or more (made with another share's / an outside key, filed under "
        "another index incl. 0 and n+1, over another content - validly or not -, carrying another content, truncated, zero, "
        "junk, wrong domain, wrong fork version) and/or repeating a share (copy identical / corrupted / original corrupted; "
        "in front or behind).  TLC enumerates the cases by model checking SigAggGen (states = cases); a seeded generator "
        "adds random lists over (n,t) in {(3,2),(4,3),(5,3),(5,4),(7,5)}.  The executor builds real objects, real share keys "
        "(tbls.ThresholdSplit) and signs with the domain/epoch rule the SPEC gives for the type; it logs error/no error, "
        "subscriber calls and, per published object, verifies (core.VerifyEth2SignedData and its own computation), content, "
        "body.  evaluations = calls executed; distinct_nontrivial = distinct <type, version, bucket, partial lists, recorded "
        "relations> tuples (keys and object bytes are not part of a trace, so there is nothing seed-dependent to inflate it)")
ASSUMPTIONS = [
    "crypto abstraction of the model: an aggregate over pairwise distinct share indices verifies iff >= t of them, each a "
    "well-formed signature by the share it is filed under over the published content with the type's domain and the "
    "content's own epoch (the Lagrange fact checked for C08); for partials made with cluster keys but filed under other "
    "indices the model decides validity EXACTLY (Lagrange functional identity per signed message, computed modulo three "
    "15-bit primes) because their errors can cancel into the genuine group signature; hashes injective / independent on "
    "the objects in play",
    "the table type -> (signing domain, epoch source) is part of the spec (consensus-specs / builder-specs); the executor "
    "signs and re-verifies with it, never with core's DomainName()/Epoch(); the beacon mock supplies domain types, fork "
    "schedule (deneb/electra/fulu) and genesis data",
    "a call whose partials are all valid, distinct, >= t and agree must be published to every subscriber (DESIGN C09: "
    "'Publish iff all Ok'); subscribers return nil",
    "'contains an invalid share' is judged as the aggregator can judge it (it only has the group key): nothing must be "
    "published unless some selection of one partial per index combines to a valid group signature (then: error or that "
    "valid object)",
    "left open (statement silent): a repeated share index when >= t distinct indices remain, and a partial that carries one "
    "content but signs the other - outcome may be an error or a VALID object whose content >= t distinct shares signed; "
    "which error; the duty passed to subscribers",
]
NT_RANDOM = [(3, 2), (4, 3), (5, 3), (5, 4), (7, 5)]


def enumerate_cases(cfg):
    r = vlib.tlc(PID, FAMILY, "SigAggGen", cfg, workers=1, timeout=1200)
    if not r.ok:
        raise vlib.Infra("case enumeration failed: %s\n%s" % (r.summary(), r.out[-2000:]))
    cases = [json.loads(p) for p in vlib.tagged_prints(r, "SCHED")]
    if not cases or len(cases) != len({json.dumps(c, sort_keys=True) for c in cases}):
        raise vlib.Infra("case enumeration: duplicate or no cases")
    return cases, r


def random_cases(seed, pool, k):
    """random partial lists; the per-type domain / epoch source and the type x version x bucket combinations are taken
    from the cases TLC printed (the table lives in the spec)."""
    r = vlib.rng(seed, "c09rnd")
    combos = {}
    for c in pool:
        st = c[0]
        combos[(st["typ"], st["ver"], st["bucket"])] = (st["domain"], st["esrc"])
    keys = sorted(combos)
    doms = sorted({d for d, _ in combos.values()})
    out = []
    for _ in range(k):
        typ, ver, bucket = r.choice(keys)
        domain, esrc = combos[(typ, ver, bucket)]
        n, t = r.choice(NT_RANDOM)

        def honest(i):
            return {"idx": i, "by": i, "content": "A", "over": "A", "dom": domain, "ep": "own", "form": "ok", "vi": False}

        def corrupt(p):
            kind = r.choice(["wrongshare", "wrongidx", "othermsg", "sigover", "hybrid", "trunc", "zero", "junk", "wrongdom",
                             "wrongep", "othermsg", "wrongshare"])
            if kind == "wrongshare":
                p["by"] = r.choice([j for j in [-1] + list(range(1, n + 1)) if j != p["by"]])
            elif kind == "wrongidx":
                p["idx"] = r.choice([j for j in range(0, n + 2) if j != p["idx"]])
            elif kind == "othermsg":
                p["content"], p["over"] = "B", "B"
            elif kind == "sigover":
                p["over"] = "B" if p["over"] == "A" else "A"
            elif kind == "hybrid":
                p["content"] = "B" if p["content"] == "A" else "A"
            elif kind in ("trunc", "zero", "junk"):
                p["form"] = kind
            elif kind == "wrongdom":
                p["dom"] = r.choice([d for d in doms if d != domain])
            elif kind == "wrongep":
                p["ep"] = "other"

        vals = []
        for _v in range(r.choice([1, 1, 2, 2, 3])):
            style = r.choice(["ok", "ok", "few", "one", "many", "dup", "allB", "misfiled"])
            size = r.randint(t, n)
            if style == "few":
                size = r.randint(0, t - 1)
            ids = r.sample(range(1, n + 1), size)
            lst = [honest(i) for i in ids]
            if style == "misfiled":   # valid signatures by cluster shares, filed under arbitrary indices: errors may cancel
                ids = r.sample(range(1, n + 2), r.randint(t, min(n + 1, t + 1)))
                lst = [honest(i) for i in ids]
                for p in lst:
                    p["by"] = r.randint(1, n)
            if style == "allB":
                for p in lst:
                    p["content"], p["over"] = "B", "B"
            if style == "one" and lst:
                corrupt(r.choice(lst))
            if style == "many":
                for p in lst:
                    if r.random() < 0.4:
                        corrupt(p)
            if style == "dup" and lst:
                for _d in range(r.choice([1, 1, 2])):
                    p = dict(r.choice(lst))
                    if r.random() < 0.5:
                        corrupt(p)
                    if r.random() < 0.3:
                        corrupt(r.choice(lst))
                    lst.insert(r.randint(0, len(lst)), p)
            if typ == "attester" and lst and r.random() < 0.4:
                r.choice(lst)["vi"] = True
            vals.append(lst)
        call = {"ev": "Call", "typ": typ, "ver": ver, "bucket": bucket, "T": t, "N": n, "domain": domain, "esrc": esrc, "vals": vals}
        if len(vals) >= 2 and r.random() < 0.35:
            # CROSSED share keys: all validators of the call sign the same content (one signing root, as for randao, sync
            # messages, selections, attestations of one committee) with the same set of share indices, and the peer holding
            # share i used validator b's key for validator a and a's key for b.  Each of the two partials is signed by a
            # key that is none of its validator's shares (by = -1 for the specification); summed over the two validators
            # the errors cancel.
            call["samecontent"] = True
            size = r.randint(t, n)
            ids = r.sample(range(1, n + 1), size)
            call["vals"] = vals = [[honest(i) for i in ids] for _ in vals]
            a, b = r.sample(range(len(vals)), 2)
            for i in r.sample(ids, r.choice([1, 1, 2])):
                for x, y in ((a, b), (b, a)):
                    p = next(q for q in vals[x] if q["idx"] == i)
                    p["by"], p["xval"], p["xby"] = -1, y, i
            if r.random() < 0.3:   # only one direction: nothing cancels
                for q in vals[b]:
                    if "xval" in q:
                        q["by"] = q["idx"]
                        del q["xval"], q["xby"]
        if r.random() < 0.2:
            # the beacon node cannot answer the verifier's domain look-ups during this call: whatever the aggregator does
            # then, it must not publish what is not group-valid
            call["bn"] = "down"
        out.append([call])
    return out


def trace_cfg(trace):
    t = trace[0].get("T", 3) if trace and trace[0].get("ev") == "Reset" else 3
    return ("SigAggTrace_t%d.cfg" % t,
            "SPECIFICATION TraceSpec\nCONSTANTS T = %d\n AggMode = \"free\"\n FailMode = \"abort\"\n"
            "CONSTRAINT Mark\nPOSTCONDITION Report\nCHECK_DEADLOCK FALSE\n" % t)


def key(trace):
    return [{x: y for x, y in e.items() if x != "sid"} for e in trace]


def mutators():
    def subs(t):
        return [e for e in t if e.get("ev") == "Sub"]

    def ret(t):
        return [e for e in t if e.get("ev") == "Return"][0] if any(e.get("ev") == "Return" for e in t) else None

    def ok_as_err(t):
        r = ret(t)
        if r and not r["err"] and subs(t):
            r["err"] = True
            return t

    def err_as_ok(t):
        r = ret(t)
        if r and r["err"]:
            r["err"] = False
            return t

    def drop_sub(t):
        for i, e in enumerate(t):
            if e.get("ev") == "Sub":
                del t[i]
                return t

    def not_verifying(t):
        for e in subs(t):
            if e["pubs"]:
                e["pubs"][0]["verifies"] = False
                return t

    def not_verifying_indep(t):
        for e in subs(t):
            if e["pubs"]:
                e["pubs"][0]["verifiesIndep"] = False
                return t

    def other_content(t):
        for e in subs(t):
            if e["pubs"] and e["pubs"][0]["content"] == "A":
                e["pubs"][0]["content"] = "B"
                e["pubs"][0]["body"] = "B"
                return t

    def foreign_body(t):
        for e in subs(t):
            if e["pubs"]:
                e["pubs"][0]["body"] = "none"
                return t

    def missing_validator(t):
        for e in subs(t):
            if len(e["pubs"]) >= 2:
                e["pubs"] = e["pubs"][1:]
                return t

    def published_despite_fault(t):
        r = ret(t)
        c = [e for e in t if e.get("ev") == "Call"]
        if r and r["err"] and c and len(c[0]["vals"]) >= 2 and not subs(t):
            # the validators whose lists are in order are handed out although another one failed
            pub = [{"v": 1, "content": "A", "body": "A", "verifies": True, "verifiesIndep": True}]
            i = t.index(r)
            return t[:i] + [{"ev": "Sub", "k": 1, "dutyEq": True, "pubs": pub}, {"ev": "Sub", "k": 2, "dutyEq": True, "pubs": pub}] + t[i:]

    def invalid_published(t):
        r = ret(t)
        c = [e for e in t if e.get("ev") == "Call"]
        if r and r["err"] and c and len(c[0]["vals"]) == 1 and len(c[0]["vals"][0]) >= t[0]["T"] and not subs(t):
            pub = [{"v": 1, "content": "A", "body": "A", "verifies": False, "verifiesIndep": False}]
            i = t.index(r)
            return t[:i] + [{"ev": "Sub", "k": 1, "dutyEq": True, "pubs": pub}, {"ev": "Sub", "k": 2, "dutyEq": True, "pubs": pub},
                            {"ev": "Return", "err": False}]
    return [("successful call reported as error", ok_as_err), ("failing call reported as success", err_as_ok),
            ("subscriber call dropped", drop_sub), ("published object does not verify (core)", not_verifying),
            ("published object does not verify (independent)", not_verifying_indep),
            ("published object carries the other content", other_content),
            ("published body is no partial's body", foreign_body), ("a validator missing from the publication", missing_validator),
            ("partial output published although a validator failed", published_despite_fault),
            ("invalid aggregate published", invalid_published)]


def vi_conflicts(seed, pool, k):
    """Attestations only: the aggregator takes the output TEMPLATE from the first partial that carries a validator index
    (the local validator client's copy), the aggregated signature from all of them.  Directed lists in which the partial
    with the validator index carries / signs the OTHER content while its share index is repeated by a partial over the
    agreed content (last entry of an index wins), with the first partial of the list lacking the validator index: whatever
    is published must verify for its OWN content."""
    r = vlib.rng(seed, "c09vi")
    combos = {}
    for c in pool:
        st = c[0]
        if st["typ"] == "attester":
            combos[(st["typ"], st["ver"], st["bucket"])] = (st["domain"], st["esrc"])
    keys = sorted(combos)
    out = []
    for _ in range(k if keys else 0):
        typ, ver, bucket = r.choice(keys)
        domain, esrc = combos[(typ, ver, bucket)]
        n, t = r.choice(NT_RANDOM)

        def P(i, content="A", over=None, vi=False):
            return {"idx": i, "by": i, "content": content, "over": over or content, "dom": domain, "ep": "own", "form": "ok", "vi": vi}
        ids = r.sample(range(1, n + 1), r.randint(t, n))
        odd = r.choice(ids[1:]) if len(ids) > 1 else ids[0]
        lst = [P(i) for i in ids]
        shape = r.choice(["vi_other_then_agreed", "vi_other_then_agreed", "agreed_then_vi_other", "vi_hybrid", "two_vi"])
        k_odd = [j for j, p in enumerate(lst) if p["idx"] == odd][0]
        if shape == "vi_other_then_agreed":       # [.., odd/B+vi, .., odd/A, ..]: the later entry of the index is the agreed one
            lst[k_odd] = P(odd, "B", vi=True)
            lst.insert(r.randint(k_odd + 1, len(lst)), P(odd))
        elif shape == "agreed_then_vi_other":     # the later entry of the index is the other content
            lst.insert(r.randint(k_odd + 1, len(lst)), P(odd, "B", vi=True))
        elif shape == "vi_hybrid":                # carries B, signs A (valid for the aggregate, wrong template)
            lst[k_odd] = P(odd, "B", over="A", vi=True)
        else:                                     # two copies with validator index, different contents
            lst[k_odd] = P(odd, "B", vi=True)
            lst.insert(r.randint(k_odd + 1, len(lst)), P(odd, vi=True))
        if lst[0]["vi"] and len(lst) > 1:         # the first partial is a peer's (no validator index)
            lst[0], lst[1] = lst[1], lst[0]
        vals = [lst]
        if r.random() < 0.3:
            vals.append([P(i) for i in r.sample(range(1, n + 1), r.randint(t, n))])
            r.shuffle(vals)
        out.append([{"ev": "Call", "typ": typ, "ver": ver, "bucket": bucket, "T": t, "N": n, "domain": domain, "esrc": esrc,
                     "vals": vals}])
    return out


OTHER_BUCKET = {"deneb": "electra", "electra": "fulu", "fulu": "deneb"}     # harness/c09 otherBucket: where ep="other" signs


def sequences(seed, pool, k):
    """SEQUENCES of 2..3 calls on ONE Aggregator + verifier instance (as the application wires it: one instance for the
    life of the process).  Every call is judged on its own; the earlier calls only give a stateful implementation the
    chance to remember something it must not re-use: the same object type first verified in the fork version the later
    call's wrong partials are signed with, another type's domain, the same validators' earlier aggregate."""
    r = vlib.rng(seed, "c09seq")
    combos = {}
    for c in pool:
        st = c[0]
        combos[(st["typ"], st["ver"], st["bucket"])] = (st["domain"], st["esrc"])
    by_typ = {}
    for (typ, ver, bucket) in sorted(combos):
        by_typ.setdefault(typ, []).append((ver, bucket))
    doms = sorted({d for d, _ in combos.values()})
    out = []

    def call(typ, ver, bucket, n, t, lists):
        domain, esrc = combos[(typ, ver, bucket)]
        return {"ev": "Call", "typ": typ, "ver": ver, "bucket": bucket, "T": t, "N": n, "domain": domain, "esrc": esrc,
                "vals": lists}

    def plist(typ, ver, bucket, n, t, **over):
        domain, _ = combos[(typ, ver, bucket)]
        ids = r.sample(range(1, n + 1), r.randint(t, n))
        lst = []
        for i in ids:
            p = {"idx": i, "by": i, "content": "A", "over": "A", "dom": domain, "ep": "own", "form": "ok", "vi": False}
            p.update(over)
            lst.append(p)
        return lst

    for _ in range(k):
        typ = r.choice(sorted(by_typ))
        n, t = r.choice(NT_RANDOM)
        ver, bucket = r.choice(by_typ[typ])
        prime = [vb for vb in by_typ[typ] if vb[1] == OTHER_BUCKET[bucket]]
        style = r.choice(["stalefork", "stalefork", "staledomain", "honest_after_other", "mixed"])
        seq = []
        nprime = r.choice([1, 1, 2])
        for _p in range(nprime):
            if style in ("stalefork", "honest_after_other", "mixed") and prime:
                pv, pb = r.choice(prime)
                ptyp = typ
            elif style == "staledomain":
                ptyp = r.choice(sorted(by_typ))
                pv, pb = r.choice(by_typ[ptyp])
            else:
                ptyp = typ
                pv, pb = r.choice(by_typ[typ])
            seq.append(call(ptyp, pv, pb, n, t, [plist(ptyp, pv, pb, n, t) for _v in range(r.choice([1, 2]))]))
        nv = r.choice([1, 1, 2])
        if style == "stalefork":        # every partial signed in the fork version of the EARLIER call's objects
            lists = [plist(typ, ver, bucket, n, t, ep="other") for _v in range(nv)]
            if nv == 2 and r.random() < 0.5:
                lists[0] = plist(typ, ver, bucket, n, t)
        elif style == "staledomain":    # every partial signed with the domain of the earlier call's type
            pd = seq[-1]["domain"]
            wrong = pd if pd != combos[(typ, ver, bucket)][0] else r.choice([d for d in doms if d != pd])
            lists = [plist(typ, ver, bucket, n, t, dom=wrong) for _v in range(nv)]
        elif style == "honest_after_other":
            lists = [plist(typ, ver, bucket, n, t) for _v in range(nv)]
        else:
            lists = [plist(typ, ver, bucket, n, t) for _v in range(nv)]
            for p in lists[0]:
                if r.random() < 0.5:
                    p["ep"] = "other"
        seq.append(call(typ, ver, bucket, n, t, lists))
        out.append(seq)
    # the SAME validators again: an honest call for content A, then a call for the same keys in which every partial carries
    # content B with the signature made over A (what the earlier call aggregated) - or honestly signs B - or repeats A
    for _ in range(max(4, k // 3)):
        typ = r.choice(sorted(by_typ))
        n, t = r.choice(NT_RANDOM)
        ver, bucket = r.choice(by_typ[typ])
        nv = r.choice([1, 1, 2])
        ids = r.sample(range(1, n + 1), r.randint(t, n))
        domain, _ = combos[(typ, ver, bucket)]
        mk = lambda **over: [[dict({"idx": i, "by": i, "content": "A", "over": "A", "dom": domain, "ep": "own", "form": "ok", "vi": False}, **over)
                              for i in ids] for _v in range(nv)]
        first = call(typ, ver, bucket, n, t, mk())
        second = call(typ, ver, bucket, n, t, mk(**r.choice([{"content": "B", "over": "A"}, {"content": "B", "over": "A"}, {"content": "B", "over": "B"}, {}])))
        second["keepvals"] = True
        seq = [first, second]
        if r.random() < 0.4:
            third = call(typ, ver, bucket, n, t, mk(content="B", over="A"))
            third["keepvals"] = True
            seq.append(third)
        out.append(seq)
    return out


def run(tier, seed):
    o = vlib.Outcome(PID, tier, seed)
    thorough = tier == "thorough"
    inv = {"TypeOK", "GroupValid", "NothingOnFault", "AllOrNothing", "PublishOnOK", "ErrMeansNothing"}
    # stage 0: sigagg.go as transcribed satisfies the statement on every scenario; the property-level ("free") variant
    # the trace validation uses; two controls that MUST be violated
    cfgs = ["SigAggMC_quick.cfg", "SigAggMC_n3t2.cfg", "SigAggMC_free.cfg"]
    if thorough:
        cfgs += ["SigAggMC_n4t3m.cfg", "SigAggMC_n5t4.cfg", "SigAggMC_n5t3.cfg"]
    for cfg in cfgs:
        r = vlib.tlc(PID, FAMILY, "SigAggMC", cfg, timeout=1500)
        vlib.require_mc_ok(r, cfg)
        o.add_mc(cfg[:-4], r)
    for cfg, what in (("SigAggMC_ctl_noverify.cfg", "aggregate published without verification"),
                      ("SigAggMC_ctl_partial.cfg", "validators aggregated before a failure are published")):
        r = vlib.tlc(PID, FAMILY, "SigAggMC", cfg, timeout=600)
        if r.violation not in inv - {"TypeOK"}:
            raise vlib.Infra("design-spec control failed: '%s' not caught: %s" % (what, r.summary()))
        o.selftests.append({"control": "spec variant '%s' violates %s" % (what, r.violation), "rejected_as_required": True})
    # stage 1: the scenario space, enumerated by TLC
    cases, g = enumerate_cases("SigAggGen_thorough.cfg" if thorough else "SigAggGen_quick.cfg")
    extra = []
    for cfg in (["SigAggGen_n3t2.cfg", "SigAggGen_n5t4.cfg"] if thorough else []):
        extra += enumerate_cases(cfg)[0]
    o.extra["cases_enumerated_by_tlc"] = len(cases) + len(extra)
    rnd = random_cases(seed, cases, 6000 if thorough else 700)
    # stage 2+3
    kw = dict(key=key, chunk=400)
    vlib.conformance(o, FAMILY, "SigAggTrace", trace_cfg, "c09", cases, tag="enum", **kw)
    if extra:
        vlib.conformance(o, FAMILY, "SigAggTrace", trace_cfg, "c09", extra, tag="enum_nt", **kw)
    vlib.conformance(o, FAMILY, "SigAggTrace", trace_cfg, "c09", rnd, tag="random", **kw)
    vlib.conformance(o, FAMILY, "SigAggTrace", trace_cfg, "c09", sequences(seed, cases, 3000 if thorough else 400), tag="seq", **kw)
    vlib.conformance(o, FAMILY, "SigAggTrace", trace_cfg, "c09", vi_conflicts(seed, cases, 1500 if thorough else 250), tag="vi", **kw)
    # binding negative controls on recorded traces
    tr = vlib.split_traces(vlib.read_ndjson(vlib.workdir(PID) + "/trace_enum.ndjson"))
    ms = mutators()
    vlib.binding_selftest(o, FAMILY, "SigAggTrace", trace_cfg, tr, ms)
    if len(o.selftests) < 2 + len(ms) and not o.violations:
        raise vlib.Infra("binding self-test: some negative control found no applicable trace")
    # the same rule on REAL, fully wired nodes (specs/Workflow, harness/workflow): clusters of real app.Run nodes in which
    # invalid partial signatures reach the aggregator (a Byzantine member behind an exchange that does not verify, as
    # core/parsigex/memory.go behaves) - whatever a node stores as aggregate, broadcasts or submits to its beacon node must
    # verify under the group key; only that guard (GroupValid) may raise an alarm here
    if not o.violations:
        import grow_workflow
        grow_workflow.light_stage(o, seed, only={"GroupValid"},
                                  pick=lambda p: p.get("byz") is not None and p.get("mode") == "mem",
                                  controls=("invalid aggregate stored", "invalid aggregate broadcast"))
    return vlib.finish(o, "exploration", RULE, ASSUMPTIONS)


def replay(path):
    rp = json.load(open(path))
    o = vlib.Outcome(PID, "quick", 0)
    vlib.conformance(o, FAMILY, rp["trace_module"], trace_cfg, rp["pkg"], [rp["schedule"]], tag="replay")
    for p, t in o.violations:
        log("replay: " + t)
    return 1 if o.violations else 0
