"""C17 - AggSigDB: blocking reads return the stored value, no lost wake-ups (core/aggsigdb/memory.go, memory_v2.go)."""
import vlib
from vlib import log

FAMILY = "AggSigDB"
RULE = ("schedules = sequences of Await(reader,key)/Store(set of key->value for one duty)/Cancel(reader)/Expire(duty) over "
        "keys [duty,validator]; generated (a) by TLC simulation of AggSigDBGen and (b) by a seeded random generator (up to 8 "
        "concurrent readers over overlapping keys, stores before/after reads, equal and conflicting re-stores inside "
        "multi-entry sets, cancellations, expiries and re-stores after expiry); every schedule is executed on BOTH "
        "aggsigdb.NewMemDB and aggsigdb.NewMemDBV2 (readers are goroutines, scripted deadliner); (c) blocks of 2-3 concurrent "
        "Store calls (conflicting/equal data, same/different keys, overlap forced by the gated deadliner stub); distinct = distinct "
        "recorded traces")
ASSUMPTIONS = [
    "a scripted core.Deadliner stands in for the real one (expiry = the duty the driver sends on C(); Run's sequential loop "
    "taking a second, never stored duty proves the first was served)",
    "'returns as soon as stored' is judged at the driver's next stimulus: a reader whose key the driver has seen stored "
    "(Store returned nil, or some reader returned a value) or whose context was cancelled gets 5 s to return, else Hang",
    "after a FAILED multi-entry Store the driver probes each entry's key with an extra reader for 50 ms; if such a probe "
    "runs out although the key was stored, a lost wake-up on that key can go unnoticed in that trace (never a false alarm)",
    "which entries of a failing Store preceded the mismatch (Go map order) is inferred by TLC from what readers returned",
    "a cancelled Await may return either the context error or a value it legitimately obtained (the selects race)",
    "concurrent writers: 2-3 Store calls overlap in blocks whose overlap is forced through the gated deadliner stub (Add "
    "blocks the first writer inside the store while the next is started; a later writer is taken to be blocked after 150 ms, "
    "which only decides when the gate opens); TLC infers the linearisation from per-writer StoreCall/StoreRet bracketing; "
    "readers are not started inside a block",
]
DUTIES = ["d1", "d2", "d3"]
PKS = ["p1", "p2", "p3", "p4"]
VALS = ["a", "b", "c", "d"]          # a: attestation, b: beacon committee selection, c: sync committee selection, d: randao
TWIN_SHARE = 0.5                     # share of conflicting re-stores that use the TWIN of the stored value


def twin(v):
    """The twin of a model value ("a" <-> "at"): in the executor's table the same type and the same signature bytes, but
    another field differs (aggregation bits / validator index / epoch).  For the spec it is just a different value."""
    return v[:-1] if len(v) > 1 and v.endswith("t") else v + "t"


def other_than(r, have):
    """A value that conflicts with `have`: its twin with probability TWIN_SHARE, else one with another signature."""
    if r.random() < TWIN_SHARE:
        return twin(have)
    return r.choice([x for x in VALS + [twin(x) for x in VALS] if x not in (have, twin(have))])


def twinify(seed, scheds):
    """TLC-generated schedules draw values uniformly from the Gen cfg's Vals; give conflicting re-stores a fair share of
    twins: walking the schedule with a guess of what is stored, an entry that (by the guess) conflicts with the stored
    value v is rewritten to twin(v) with probability TWIN_SHARE.  Still only a schedule: nothing is expected of it."""
    r = vlib.rng(seed, "c17twin")
    out = []
    for sch in scheds:
        cur, new = {}, []
        for st in sch:
            st = dict(st)
            if st["ev"] == "Store":
                ents = []
                for e in st["set"]:
                    kk = (e["k"]["d"], e["k"]["p"])
                    v = e["v"]
                    if kk in cur and cur[kk] != v and r.random() < TWIN_SHARE:
                        v = twin(cur[kk])
                    ents.append({"k": e["k"], "v": v})
                for e in ents:
                    cur.setdefault((e["k"]["d"], e["k"]["p"]), e["v"])
                st["set"] = ents
            elif st["ev"] == "Expire":
                for kk in [kk for kk in cur if kk[0] == st["d"]]:
                    del cur[kk]
            new.append(st)
        out.append(new)
    return out


def random_schedules(seed, n, big):
    r = vlib.rng(seed, "c17")
    out = []
    for i in range(n):
        kind = r.choice(["mixed", "mixed", "manywait", "samekey", "partial", "expiry", "cancel"])
        nd = r.randint(1, 3)
        npk = r.randint(1, 4)
        duties, pks = DUTIES[:nd], PKS[:npk]
        maxr = r.randint(2, 8 if not big else 14)
        L = r.randint(5, 16 if not big else 30)
        steps, nr = [], 0
        cur = {}            # generator's own guess of what is stored (only steers the choice of values)
        live = []

        def key():
            return {"d": r.choice(duties), "p": r.choice(pks)}

        def await_(k=None):
            nonlocal nr
            nr += 1
            rid = "r%d" % nr
            live.append(rid)
            steps.append({"ev": "Await", "r": rid, "k": k or key()})

        def store(d=None, size=None, conflict=None):
            d = d or r.choice(duties)
            size = size or r.choice([1, 1, 2, 2, 3, len(pks)])
            ps = r.sample(pks, min(size, len(pks)))
            ents = []
            for p in ps:
                have = cur.get((d, p))
                if have is None:
                    v = r.choice(VALS)
                else:
                    c = conflict if conflict is not None else (r.random() < 0.4)
                    v = other_than(r, have) if c else have
                ents.append({"k": {"d": d, "p": p}, "v": v})
            for e in ents:      # optimistic guess; the executor and the spec do not depend on it
                cur.setdefault((e["k"]["d"], e["k"]["p"]), e["v"])
            steps.append({"ev": "Store", "set": ents})

        if kind == "manywait":
            # many sleepers over overlapping keys, then the stores one by one
            for _ in range(maxr):
                await_()
            for d in duties:
                for p in pks:
                    if r.random() < 0.8:
                        steps.append({"ev": "Store", "set": [{"k": {"d": d, "p": p}, "v": r.choice(VALS)}]})
                        cur.setdefault((d, p), steps[-1]["set"][0]["v"])
        elif kind == "samekey":
            k = key()
            for _ in range(maxr):
                await_(dict(k))
            if r.random() < 0.5:
                await_()
            steps.append({"ev": "Store", "set": [{"k": dict(k), "v": r.choice(VALS)}]})
        elif kind == "partial":
            # a stored key, sleepers on the others, then a set that conflicts on the stored key
            d = r.choice(duties)
            p0 = r.choice(pks)
            v0 = r.choice(VALS)
            steps.append({"ev": "Store", "set": [{"k": {"d": d, "p": p0}, "v": v0}]})
            cur[(d, p0)] = v0
            for p in pks:
                if p != p0:
                    await_({"d": d, "p": p})
                    if r.random() < 0.4:
                        await_({"d": d, "p": p})
            ents = [{"k": {"d": d, "p": p0}, "v": other_than(r, v0)}]
            ents += [{"k": {"d": d, "p": p}, "v": r.choice(VALS)} for p in pks if p != p0]
            r.shuffle(ents)
            steps.append({"ev": "Store", "set": ents})
        def await_cancelled():
            # a reader whose context is ALREADY cancelled when it calls Await (mostly for a key that is stored): it returns
            # the context error or the value - whichever, what it leaves behind must not reach any later reader
            nonlocal nr
            nr += 1
            stored = sorted(cur)
            k = {"d": stored[0][0], "p": stored[0][1]} if stored and r.random() < 0.75 else key()
            if stored and r.random() < 0.75:
                d_, p_ = r.choice(stored)
                k = {"d": d_, "p": p_}
            steps.append({"ev": "AwaitC", "r": "r%d" % nr, "k": k})

        precancel = kind == "cancel" or i % 4 == 3
        for _ in range(L):
            x = r.random()
            if precancel and r.random() < 0.25 and nr < maxr + 10:
                await_cancelled()
                if r.random() < 0.6:
                    await_()
            elif x < 0.35 and nr < maxr + 6:
                await_()
            elif x < 0.70:
                store()
            elif x < 0.82 and live:
                rid = r.choice(live)
                live.remove(rid)
                steps.append({"ev": "Cancel", "r": rid})
            elif x < 0.92 or kind == "expiry":
                d = r.choice(duties)
                steps.append({"ev": "Expire", "d": d})
                for kk in [kk for kk in cur if kk[0] == d]:
                    del cur[kk]
            else:
                store(conflict=True)
        out.append(steps)
    return out


def concurrent_schedules(seed, n, big):
    """Blocks of 2-3 CONCURRENT Store calls (step CStore: the executor forces the overlap through the gated deadliner
    stub) with conflicting / equal data for the same and for different keys, surrounded by readers."""
    r = vlib.rng(seed, "c17cw")
    out = []
    for i in range(n):
        kind = r.choice(["fresh-conflict", "fresh-conflict", "fresh-equal", "disjoint", "overlap", "overlap", "stored-conflict"])
        d = r.choice(DUTIES[:2])
        pks = PKS[:r.randint(2, 4)]
        steps, nr = [], 0

        def await_(k):
            nonlocal nr
            nr += 1
            steps.append({"ev": "Await", "r": "r%d" % nr, "k": k})

        def ent(p, v):
            return {"k": {"d": d, "p": p}, "v": v}

        for _ in range(r.randint(0, 3)):           # sleepers before the writers start
            await_({"d": d, "p": r.choice(pks)})
        nw = 2 if r.random() < 0.7 else 3
        p0 = r.choice(pks)
        vs = r.sample(VALS, 3)
        if r.random() < TWIN_SHARE:
            vs[1] = twin(vs[0])                     # the writers' conflicting values share their signature bytes
        elif r.random() < 0.3:
            vs[2] = twin(vs[0])                     # ... or only the third writer's does
        if kind == "stored-conflict":
            steps.append({"ev": "Store", "set": [ent(p0, vs[0])]})
        if kind == "fresh-conflict":
            sets = [[ent(p0, vs[w % 3])] for w in range(nw)]
            if nw == 3 and r.random() < 0.5:
                sets[2] = [ent(p0, vs[0])]          # two equal, one different
        elif kind == "fresh-equal":
            sets = [[ent(p0, vs[0])] for w in range(nw)]
        elif kind == "disjoint":
            ps = r.sample(pks, min(nw, len(pks)))
            sets = [[ent(ps[w % len(ps)], r.choice(VALS))] for w in range(nw)]
        elif kind == "stored-conflict":
            sets = [[ent(p0, vs[1 + (w % 2)])] + ([ent(r.choice([p for p in pks if p != p0]), r.choice(VALS))] if r.random() < 0.6 else [])
                    for w in range(nw)]
        else:                                       # overlapping multi-entry sets, conflicts on some keys
            sets = []
            for w in range(nw):
                ps = r.sample(pks, r.randint(1, len(pks)))
                if p0 not in ps:
                    ps.append(p0)
                sets.append([ent(p, r.choice(vs[:2])) for p in ps])
        steps.append({"ev": "CStore", "sets": sets})
        for _ in range(r.randint(1, 3)):           # readers afterwards see the surviving value
            await_({"d": d, "p": r.choice(pks)})
        if r.random() < 0.5:
            # a second block: re-stores of what the first block wrote (equal for one writer, conflicting for the other)
            steps.append({"ev": "CStore", "sets": [[ent(p0, vs[w % 2])] for w in range(2)]})
            await_({"d": d, "p": p0})
        if r.random() < 0.3:
            steps.append({"ev": "Expire", "d": d})
            steps.append({"ev": "CStore", "sets": [[ent(p0, vs[(w + 1) % 3])] for w in range(2)]})
            await_({"d": d, "p": p0})
        out.append(steps)
    return out


def mutators():
    def wrong_value(t):
        for e in t:
            if e.get("ev") == "AwaitReturn" and e["got"] != "err":
                e["got"] = "zz"
                return t
        return None

    def value_for_cancelled(t):
        # a cancelled reader on a key that was never stored "returns" a value
        for e in t:
            if e.get("ev") == "AwaitReturn" and e["got"] == "err":
                e["got"] = "a"
                return t
        return None

    def drop_return(t):
        # a reader whose key was stored never returns (the lost wake-up as it would be recorded without the Hang)
        for i, e in enumerate(t):
            if e.get("ev") == "AwaitReturn" and e["got"] != "err" and any(f.get("ev") in ("StoreCall", "AwaitCall", "Cancel", "Expire") for f in t[i + 1:]):
                del t[i]
                return t
        return None

    def mismatch_accepted(t):
        for e in t:
            if e.get("ev") == "StoreRet" and e["res"] == "mismatch":
                e["res"] = "ok"
                return t
        return None

    def ok_rejected(t):
        for e in t:
            if e.get("ev") == "StoreRet" and e["res"] == "ok":
                e["res"] = "mismatch"
                return t
        return None

    def err_without_cancel(t):
        for i, e in enumerate(t):
            if e.get("ev") == "Cancel" and i + 1 < len(t) and t[i + 1].get("ev") == "AwaitReturn" and t[i + 1]["got"] == "err":
                del t[i]
                return t
        return None

    def both_ok(t):
        # two concurrent conflicting stores of the same key both "succeed"
        calls = {}
        for e in t:
            if e.get("ev") == "StoreCall":
                calls[e["w"]] = e
            if e.get("ev") == "StoreRet" and e["res"] == "mismatch" and e["w"] != "w0" and len(calls[e["w"]]["set"]) == 1:
                e["res"] = "ok"
                return t
        return None

    def drop_store(t):
        # the Store call disappears but its reader returns stay
        # (only where no failed Store precedes: after one, TLC rightly keeps "that key was stored then" alive)
        for i, e in enumerate(t):
            if e.get("ev") == "StoreRet" and e["res"] != "ok":
                return None
            if e.get("ev") == "StoreCall" and i + 2 < len(t) and t[i + 1]["res"] == "ok" and t[i + 2].get("ev") == "AwaitReturn" and t[i + 2]["got"] != "err":
                del t[i:i + 2]
                return t
        return None
    return [("returned value replaced", wrong_value), ("cancelled reader returns a value", value_for_cancelled),
            ("AwaitReturn dropped (reader stays asleep)", drop_return), ("mismatch reported as ok", mismatch_accepted),
            ("ok reported as mismatch", ok_rejected), ("context error without Cancel", err_without_cancel),
            ("Store dropped, returns kept", drop_store), ("concurrent conflicting stores both ok", both_ok)]


def cw_mutators():
    return [m for m in mutators() if m[0] in ("mismatch reported as ok", "ok reported as mismatch", "returned value replaced",
                                              "concurrent conflicting stores both ok")]


def conform(o, schedules, tag):
    """vlib.conformance plus a completeness guard: unless something was rejected (a Hang stops the executor on purpose),
    the recorded traces must cover EVERY schedule on BOTH implementations.  Guards against a trace file that is not this
    run's (two ./check C17 runs sharing .work/C17 overwrite each other's files) and against an executor that stops early."""
    nv, nk, nt = len(o.violations), len(o.known), o.traces
    vlib.conformance(o, FAMILY, "AggSigDBTrace", "AggSigDBTrace.cfg", "c17", schedules, tag=tag, chunk=125)
    if len(o.violations) == nv and len(o.known) == nk:
        tr = vlib.split_traces(vlib.read_ndjson(vlib.workdir("C17") + "/trace_%s.ndjson" % tag))
        seen = {(t[0].get("sid"), t[0].get("impl")) for t in tr if t and t[0].get("ev") == "Reset"}
        want = {(i, m) for i in range(len(schedules)) for m in ("v1", "v2")}
        if seen != want or o.traces - nt != len(want):
            raise vlib.Infra("stage %s: %d schedules x 2 implementations expected, but the trace file holds %d traces covering %d of "
                             "them (another run writing to .work/C17, or the executor stopped early)"
                             % (tag, len(schedules), len(tr), len(seen & want)))


def run(tier, seed):
    o = vlib.Outcome("C17", tier, seed)
    thorough = tier == "thorough"
    # stage 0: design check (both implementations in one run: `impl` is chosen in Init)
    cfg = "AggSigDBMC.cfg" if thorough else "AggSigDBMC_quick.cfg"
    r = vlib.tlc("C17", FAMILY, "AggSigDBMC", cfg, timeout=1700)
    vlib.require_mc_ok(r, cfg)
    o.add_mc(cfg[:-4], r)
    # without expiry a reader that holds a value holds exactly what is stored (ReadsCurrent; 3 stores on one duty)
    r = vlib.tlc("C17", FAMILY, "AggSigDBMC", "AggSigDBMC_noexp.cfg", timeout=600)
    vlib.require_mc_ok(r, "AggSigDBMC_noexp")
    o.add_mc("AggSigDBMC_noexp", r)
    # concurrent writers (2, thorough also 3): ValueStable / MismatchNoChange / AckedStored under all interleavings of
    # the writers' Acquire / StoreEntry / StoreReturn steps
    for ccfg in (["AggSigDBMC_cw_thorough.cfg", "AggSigDBMC_cw3.cfg"] if thorough else ["AggSigDBMC_cw.cfg"]):
        r = vlib.tlc("C17", FAMILY, "AggSigDBMC", ccfg, timeout=900)
        vlib.require_mc_ok(r, ccfg)
        o.add_mc(ccfg[:-4], r)
    # control: the narrowed write lock (lookup and insert in separate critical sections) must violate them
    r = vlib.tlc("C17", FAMILY, "AggSigDBMC", "AggSigDBMC_narrow.cfg", timeout=600)
    if r.violation not in ("NoExpiryReadsCurrent", "ValueStable"):
        raise vlib.Infra("design-spec control AggSigDBMC_narrow not violated: " + r.summary())
    o.selftests.append({"control": "narrowed write lock (NarrowLock=TRUE): two concurrent writers both insert a fresh key", "rejected_as_required": True})
    r = vlib.tlc("C17", FAMILY, "AggSigDBMC", "AggSigDBMC_live.cfg", timeout=900)
    vlib.require_mc_ok(r, "AggSigDBMC_live")
    o.add_mc("AggSigDBMC_live", r)
    # controls: memory_v2.go as coded on the pinned tree must violate NoLostWakeup (guards against a vacuous invariant);
    # with a single reader the capacity-1 channel is enough (shows the violation needs >= 2 sleepers)
    for ccfg, what in (("AggSigDBMC_ascoded.cfg", "capacity-1 notify channel (WakeAll=FALSE) violates NoLostWakeup with 2 readers"),
                       ("AggSigDBMC_nonotify.cfg", "no notification after a partially failed Store (NotifyOnFail=FALSE) violates NoLostWakeup")):
        r = vlib.tlc("C17", FAMILY, "AggSigDBMC", ccfg, timeout=600)
        if r.violation != "Safety":
            raise vlib.Infra("design-spec control %s not violated: %s" % (ccfg, r.summary()))
        o.selftests.append({"control": what, "rejected_as_required": True})
    r = vlib.tlc("C17", FAMILY, "AggSigDBMC", "AggSigDBMC_ascoded1.cfg", timeout=600)
    vlib.require_mc_ok(r, "AggSigDBMC_ascoded1")
    o.selftests.append({"control": "capacity-1 notify channel with ONE reader satisfies NoLostWakeup", "rejected_as_required": True})
    if thorough:
        r = vlib.tlc("C17", FAMILY, "AggSigDBMC", "AggSigDBMC_live_ascoded.cfg", timeout=600)
        if "Temporal propert" not in r.out or "violated" not in r.out:
            raise vlib.Infra("design-spec control AggSigDBMC_live_ascoded not violated: " + r.summary())
        o.selftests.append({"control": "capacity-1 notify channel violates liveness (reader with stored key sleeps forever)", "rejected_as_required": True})
    # stage 1: schedules
    scheds, g = vlib.gen_schedules("C17", FAMILY, "AggSigDBGen", "AggSigDBGen.cfg", num=400 if thorough else 60,
                                   depth=60, seed=seed, limit=2500 if thorough else 250)
    scheds = twinify(seed, scheds)
    rnd = random_schedules(seed, 2000 if thorough else 250, thorough)
    # stage 2+3 (each schedule runs on v1 and on v2)
    conform(o, scheds, "tlcgen")
    conform(o, rnd, "random")
    cw = concurrent_schedules(seed, 300 if thorough else 30, thorough)
    conform(o, cw, "concurrent")
    if not o.violations:
        trc = vlib.split_traces(vlib.read_ndjson(vlib.workdir("C17") + "/trace_concurrent.ndjson"))
        vlib.binding_selftest(o, FAMILY, "AggSigDBTrace", "AggSigDBTrace.cfg", trc, cw_mutators())
    if not o.violations:
        tr = vlib.split_traces(vlib.read_ndjson(vlib.workdir("C17") + "/trace_random.ndjson"))
        vlib.binding_selftest(o, FAMILY, "AggSigDBTrace", "AggSigDBTrace.cfg", tr, mutators()[:-1])
    return vlib.finish(o, "model_checking", RULE, ASSUMPTIONS)


def replay(path):
    import json
    rp = json.load(open(path))
    o = vlib.Outcome("C17", "quick", 0)
    vlib.conformance(o, FAMILY, rp["trace_module"], rp["trace_cfg"], rp["pkg"], [rp["schedule"]], tag="replay")
    for p, t in o.violations:
        log("replay: " + t)
    return 1 if o.violations else 0
