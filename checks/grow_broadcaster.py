"""GROWTH family "Broadcaster" - the last workflow step (core/bcast/bcast.go, metrics.go): per duty type, which beacon-API
submission is made with which aggregated signed objects, what is done for duty types that are not broadcast, the
"already known" tolerance (attestations only), the delay measurement against the slot start, exits one by one.

Not a registered check: `stage(o, tier, seed)` runs the family as an extra stage of an existing check (the Outcome `o`
collects coverage and violations); `main(tier, seed)` is a stand-alone driver, `replay(path)` re-runs a replay file."""
import json, os, time
import vlib
from vlib import log

FAMILY = "Broadcaster"
PKG = "bcastcore"
TRACE = "BroadcasterTrace"
TCFG = "BroadcasterTrace.cfg"

RULE = ("Broadcaster stage: cases = duty type (all 13 + unknown/out-of-range) x set of 0..3 (thorough 0..4) signed objects "
        "(right/wrong kind, pre/post-electra, with/without validator index, known/unknown to the node's attester duties, "
        "full/blinded, per-exit answers) x answers of the beacon node (ok / PriorAttestationKnown text / other error), "
        "enumerated by TLC (BroadcasterGen, states = cases); data versions, error texts (incl. near-misses of the "
        "tolerated text), slot, slot duration, call time and node latencies drawn from the seed; plus seeded random "
        "larger sets.  Executed on the real bcast.Broadcaster over a scripted recording beaconmock inside testing/synctest "
        "(virtual time: the delay read back from the prometheus histogram is exact), every set inserted ascending and "
        "descending (Go map order); every trace validated by BroadcasterTrace.tla")

PRE = ["phase0", "altair", "bellatrix", "capella", "deneb"]
POST = ["electra", "fulu"]
PROP_PRE = ["bellatrix", "capella", "deneb"]
TEXTS = {
    "ok": [""],
    # error texts that CONTAIN the tolerated marker
    "prior": ["PriorAttestationKnown", "lighthouse: PriorAttestationKnown: validator 7 slot 3",
              "POST failed with status 400: {\"code\":400,\"message\":\"BAD_REQUEST: PriorAttestationKnown\"}"],
    # ... and texts that do not (near-misses included: the match is case-sensitive and contiguous)
    "other": ["internal server error", "priorattestationknown", "Prior Attestation Known", "context deadline exceeded",
              "AttestationKnown", "PriorAttestation Known", "503 service unavailable"],
}


def concretise(r, case, k=None):
    """A TLC-enumerated case carries classes only: choose data versions, literal error texts, slot, slot duration, the
    time of the call (before, at, after the expected submission) and the node's latencies."""
    c = dict(case)
    c["slotms"] = r.choice([3000, 6000, 12000])          # multiples of 3 ms: the coded offsets slot*k/3 are exact
    c["slot"] = r.randint(1, 40)
    start = c["slot"] * c["slotms"]
    c["at"] = max(0, start + r.choice([0, c["slotms"] // 3, 2 * c["slotms"] // 3, r.randint(-c["slotms"], 3 * c["slotms"]),
                                       r.randint(0, c["slotms"])]))
    c["llat"] = r.choice([0, 0, r.randint(1, 900), r.randint(1, 4000)])
    c["ltxt"] = r.choice(TEXTS[c["lcls"]])
    c["rtxt"] = r.choice(TEXTS[c["rcls"]])
    objs = []
    for o in c["set"]:
        o = dict(o)
        if o["kind"] == "prop":
            o["ver"] = r.choice(POST if o["post"] else PROP_PRE)
        else:
            o["ver"] = r.choice(POST if o["post"] else PRE)
        o["txt"] = r.choice(TEXTS[o["cls"]])
        o["lat"] = r.choice([0, r.randint(1, 700)]) if o["kind"] == "exit" else 0
        objs.append(o)
    c["set"] = objs
    return [c]


def obj(kind, post=False, vi=False, known="no", blinded=False, cls="ok"):
    return {"kind": kind, "post": post, "vi": vi, "known": known, "blinded": blinded, "cls": cls, "lat": 0}


KIND = {"attester": "att", "aggregator": "agg", "sync_message": "msg", "sync_contribution": "contrib", "exit": "exit",
        "proposer": "prop"}
ALL_TYPES = ["attester", "aggregator", "sync_message", "sync_contribution", "exit", "proposer", "builder_proposer",
             "builder_registration", "randao", "prepare_aggregator", "prepare_sync_contribution", "unknown", "signature",
             "info_sync", "sentinel14", "t99"]


def random_cases(seed, n):
    """larger and more mixed sets than the enumeration (up to 6 objects), aimed at: the position of the first pre-electra
    attestation, several refused exits, a wrong-typed entry anywhere, registrations handed to any duty."""
    r = vlib.rng(seed, "bcast-rnd")
    out = []
    for _ in range(n):
        t = r.choice(["attester"] * 4 + ["exit"] * 4 + ["aggregator", "sync_message", "sync_contribution", "proposer"] * 2
                     + ALL_TYPES)
        size = r.choice([0, 1, 2, 3, 4, 5, 6]) if t in ("attester", "exit", "aggregator", "sync_message", "sync_contribution") \
            else r.choice([0, 1, 1, 1, 2, 3])
        objs = []
        wrong = r.random() < 0.15
        for i in range(size):
            k = KIND.get(t, r.choice(["reg", "randao", "att", "exit"]))
            if k == "att":
                post = r.random() < 0.7
                vi = post and r.random() < 0.6
                objs.append(obj("att", post, vi, r.choice(["no", "yes", "yes", "otherslot"])))
            elif k == "prop":
                objs.append(obj("prop", r.random() < 0.5, blinded=r.random() < 0.5))
            elif k == "exit":
                objs.append(obj("exit", cls=r.choice(["ok", "ok", "prior", "other"])))
            elif k == "agg":
                objs.append(obj("agg", r.random() < 0.5))
            else:
                objs.append(obj(k))
        if wrong and objs:
            objs[r.randrange(len(objs))] = obj(r.choice([x for x in ("att", "exit", "msg", "contrib", "reg", "randao", "agg")
                                                         if x != KIND.get(t)]))
        needs = t == "attester" and any(x["kind"] == "att" and x["post"] and not x["vi"] for x in objs)
        case = {"ev": "Case", "duty": t, "set": objs,
                "lcls": r.choice(["ok", "ok", "prior", "other"]) if t in KIND and t != "exit" else "ok",
                "rcls": r.choice(["ok", "ok", "other"]) if needs else "ok"}
        out.append(concretise(r, case))
    return out


# ----------------------------------------------------------------------------------------------------------------------
# binding self-tests: corrupt one recorded field / drop one event of an accepted trace -> must be rejected
# ----------------------------------------------------------------------------------------------------------------------
def mutators():
    def duty(t, *names):
        return t[0]["duty"] in names

    def ret(t):
        return t[-2] if len(t) >= 2 and t[-1].get("ev") == "End" and t[-2].get("ev") == "Ret" else None

    def other_endpoint(t):
        for e in t:
            if e.get("ev") == "Submit" and e["api"] == "sync_committee_messages":
                e["api"] = "sync_committee_contributions"
                return t
        return None

    def swapped_proposal(t):
        for e in t:
            if e.get("ev") == "Submit" and e["api"] in ("proposal", "blinded_proposal"):
                e["api"] = "proposal" if e["api"] == "blinded_proposal" else "blinded_proposal"
                return t
        return None

    def lost_object(t):
        for e in t:
            if e.get("ev") == "Submit" and len(e["objs"]) >= 2:
                for f in ("objs", "vi", "eq"):
                    e[f] = e[f][:-1]
                return t
        return None

    def duplicated_object(t):
        for e in t:
            if e.get("ev") == "Submit" and len(e["objs"]) >= 2:
                e["objs"][-1] = e["objs"][0]
                return t
        return None

    def altered_object(t):
        for e in t:
            if e.get("ev") == "Submit" and e["objs"]:
                e["eq"][0] = False
                return t
        return None

    def split_submission(t):
        for i, e in enumerate(t):
            if e.get("ev") == "Submit" and len(e["objs"]) >= 2 and e["api"] != "voluntary_exit":
                a, b = json.loads(json.dumps(e)), json.loads(json.dumps(e))
                for f in ("objs", "vi", "eq"):
                    a[f], b[f] = e[f][:1], e[f][1:]
                t[i:i + 1] = [a, b]
                return t
        return None

    def registration_submitted(t):
        if not duty(t, "builder_registration") or not ret(t):
            return None
        t.insert(len(t) - 2, {"ev": "Submit", "call": 1, "api": "validator_registrations", "objs": [1], "vi": [0], "eq": [True],
                              "t": ret(t)["t0"]})
        return t

    def prior_swallowed_elsewhere(t):
        r = ret(t)
        if r and duty(t, "aggregator", "sync_message", "sync_contribution", "proposer") and t[0]["lcls"] == "prior" and r["err"] == "bn":
            r.update({"err": "none", "call": 0, "text": "",
                      "instr": [{"label": t[0]["duty"], "total": 1, "cnt": 1, "ms": 0}]})
            return t
        return None

    def prior_not_swallowed(t):
        r = ret(t)
        if r and duty(t, "attester") and t[0]["lcls"] == "prior" and r["err"] == "none":
            r.update({"err": "bn", "call": [e for e in t if e.get("ev") == "Submit"][-1]["call"], "text": "x", "instr": []})
            return t
        return None

    def instrumented_on_failure(t):
        r = ret(t)
        if r and r["err"] != "none" and not r["instr"]:
            r["instr"] = [{"label": t[0]["duty"], "total": 1, "cnt": 1, "ms": 0}]
            return t
        return None

    def not_instrumented(t):
        r = ret(t)
        if r and r["err"] == "none" and r["instr"]:
            r["instr"] = []
            return t
        return None

    def delay_off(t):
        r = ret(t)
        if r and r["err"] == "none" and r["instr"] and duty(t, "attester", "aggregator"):
            r["instr"][0]["ms"] += t[0]["slotms"] // 3     # measured against another third of the slot
            return t
        return None

    def wrong_label(t):
        r = ret(t)
        if r and r["err"] == "none" and r["instr"]:
            r["instr"][0]["label"] = "proposer" if t[0]["duty"] != "proposer" else "attester"
            return t
        return None

    def exit_first_error(t):
        # the error of an earlier exit reported although the last one was accepted / refused with its own error
        r = ret(t)
        subs = [e for e in t if e.get("ev") == "Submit"]
        if r and duty(t, "exit") and len(subs) >= 2 and r["err"] in ("none", "bn"):
            bad = [e["call"] for e in subs[:-1] if t[0]["set"][e["objs"][0] - 1]["cls"] != "ok"]
            if bad and r["call"] != bad[0]:
                r.update({"err": "bn", "call": bad[0], "text": "x", "instr": []})
                return t
        return None

    def exit_skipped(t):
        subs = [i for i, e in enumerate(t) if e.get("ev") == "Submit"]
        if duty(t, "exit") and len(subs) >= 2 and ret(t) and all(o["kind"] == "exit" for o in t[0]["set"]):
            del t[subs[0]]
            return t
        return None

    def no_return(t):
        if ret(t):
            del t[-2]
            return t
        return None

    def nil_duty_errors(t):
        r = ret(t)
        if r and duty(t, "randao", "prepare_aggregator", "prepare_sync_contribution", "builder_registration"):
            r.update({"err": "own", "text": "unsupported duty type", "instr": []})
            return t
        return None

    def resolve_not_run(t):
        for i, e in enumerate(t):
            if e.get("ev") == "Resolve":
                del t[i]
                return t
        return None

    def index_not_resolved(t):
        if not any(e.get("ev") == "Resolve" for e in t):
            return None
        for e in t:
            if e.get("ev") == "Submit" and any(v >= 200 for v in e["vi"]):
                e["vi"] = [0 if v >= 200 else v for v in e["vi"]]
                return t
        return None

    return [("sync messages recorded at the contributions endpoint", other_endpoint),
            ("full/blinded proposal endpoints swapped", swapped_proposal),
            ("one object of the set not submitted", lost_object), ("one object submitted twice instead of another", duplicated_object),
            ("submitted object differs from the one handed in", altered_object),
            ("the set submitted in two calls", split_submission),
            ("a builder registration submitted", registration_submitted),
            ("'already known' answer swallowed for a duty other than attester", prior_swallowed_elsewhere),
            ("'already known' answer to attestations reported as failure", prior_not_swallowed),
            ("instrumentDuty on a failed broadcast", instrumented_on_failure),
            ("successful broadcast not instrumented", not_instrumented),
            ("delay measured against another third of the slot", delay_off), ("delay recorded under another duty label", wrong_label),
            ("exit: an earlier error returned instead of the last", exit_first_error), ("exit: one exit never submitted", exit_skipped),
            ("Ret event dropped", no_return), ("a not-broadcast duty type answered with an error", nil_duty_errors),
            ("validator-index resolution not run", resolve_not_run), ("resolved validator index not applied", index_not_resolved)]


# ----------------------------------------------------------------------------------------------------------------------
CONTROLS = (("BroadcasterMC_swallowall.cfg", "ResultRule", "'already known' error swallowed for every duty type"),
            ("BroadcasterMC_instralways.cfg", "InstrRule", "instrumentDuty also on failure"),
            ("BroadcasterMC_exitfirst.cfg", "ExitLast", "exit returns the first error"),
            ("BroadcasterMC_finding_exit.cfg", "SuccessMeansAccepted",
             "as coded: success reported although the node refused an exit (finding)"))


def design_check(o, tier):
    """Design check (as coded + the repaired exit variant), the controls that MUST be violated, and the enumeration of the
    cases -- independent TLC runs, side by side (vlib.scratch is not thread-safe: the scratch dirs are made first)."""
    from concurrent.futures import ThreadPoolExecutor
    thorough = tier == "thorough"
    main_cfg = "BroadcasterMC.cfg" if thorough else "BroadcasterMC_quick.cfg"
    gen_cfg = "BroadcasterGen_thorough.cfg" if thorough else "BroadcasterGen.cfg"
    jobs = [("BroadcasterMC", main_cfg, WORKERS), ("BroadcasterMC", "BroadcasterMC_exitany.cfg", 2)]
    jobs += [("BroadcasterMC", c, 2) for c, _, _ in CONTROLS] + [("BroadcasterGen", gen_cfg, 1)]
    dirs = [vlib.scratch(o.pid, FAMILY) for _ in jobs]
    with ThreadPoolExecutor(max_workers=len(jobs)) as ex:
        res = list(ex.map(lambda jd: vlib.tlc(o.pid, FAMILY, jd[0][0], jd[0][1], workers=jd[0][2], timeout=1500, sdir=jd[1]),
                          zip(jobs, dirs)))
    for (mod, cfg, _), r in zip(jobs[:2], res[:2]):
        vlib.require_mc_ok(r, cfg)
        o.add_mc("Broadcaster/" + cfg[:-4], r)
    for (cfg, inv, what), r in zip(CONTROLS, res[2:]):
        if r.violation != inv:
            raise vlib.Infra("design-spec control failed: '%s' not caught by %s: %s" % (what, inv, r.summary()))
        o.selftests.append({"control": "Broadcaster spec variant '%s' violates %s" % (what, inv), "rejected_as_required": True})
    g = res[-1]
    if not g.ok:
        raise vlib.Infra("case enumeration failed: %s\n%s" % (g.summary(), g.out[-2000:]))
    cases = [json.loads(p)[0] for p in vlib.tagged_prints(g, "SCHED")]
    if not cases or len(cases) != len({json.dumps(c, sort_keys=True) for c in cases}):
        raise vlib.Infra("case enumeration: duplicate or no cases")
    return cases


WORKERS = int(os.environ.get("VERIF_TLC_WORKERS", "0")) or None


def stage(o, tier, seed):
    """Run the Broadcaster family as an extra stage of an existing check."""
    t0 = time.time()
    thorough = tier == "thorough"
    cases = design_check(o, tier)
    r = vlib.rng(seed, "bcast-conc")
    enum = [concretise(r, c) for c in cases]
    if thorough:
        enum += [concretise(r, c) for c in cases for _ in range(2)]
    rnd = random_cases(seed, 6000 if thorough else 700)
    o.extra["bcast_cases_enumerated_by_tlc"] = len(cases)
    sch = enum + rnd
    vlib.conformance(o, FAMILY, TRACE, TCFG, PKG, sch, tag="bcast", chunk=800,   # ~2.7 s per TLC start, ~2 ms per trace
                     exec_timeout=900, tv_timeout=600)
    tr = vlib.split_traces(vlib.read_ndjson(os.path.join(vlib.workdir(o.pid), "trace_bcast.ndjson")))
    if not o.violations:
        ms = mutators()
        nself = len(o.selftests)
        vlib.binding_selftest(o, FAMILY, TRACE, TCFG, tr, ms)
        if len(o.selftests) - nself < len(ms):
            raise vlib.Infra("Broadcaster binding self-test: some negative control found no applicable trace")
    rets = [t[-2] for t in tr if len(t) >= 2 and t[-2].get("ev") == "Ret"]
    o.extra["bcast_calls"] = len(tr)
    o.extra["bcast_calls_instrumented"] = sum(1 for e in rets if e["instr"])
    o.extra["bcast_resolve_runs"] = sum(1 for t in tr for e in t if e.get("ev") == "Resolve")
    o.extra["bcast_api_calls"] = sum(1 for t in tr for e in t if e.get("ev") == "Submit")
    log("[%s] Broadcaster stage: %d cases by TLC + %d random -> %d calls of Broadcast, %d beacon-API submissions, %.0fs"
        % (o.pid, len(cases), len(rnd), len(tr), o.extra["bcast_api_calls"], time.time() - t0))


def main(tier="quick", seed=1, pid="GBCAST"):
    """Stand-alone driver (no evidence file is written: the family is registered as a stage of C01)."""
    vlib.workdir(pid, fresh=True)
    o = vlib.Outcome(pid, tier, seed)
    try:
        stage(o, tier, int(seed))
    except vlib.Infra as e:
        log("INFRA: %s" % e)
        return 2
    for fid, txt in o.known:
        log("KNOWN-FINDING: property=%s %s: %s" % (pid, fid, txt))
    for path, txt in o.violations:
        log("VIOLATION property=%s replay=%s" % (pid, path))
        log("  " + txt)
    if o.violations:
        return 1
    log("[%s] OK tier=%s seed=%s: %d MC states, %d traces validated, %d self-test controls, %.0fs"
        % (pid, tier, seed, o.states, o.traces, len(o.selftests), time.time() - o.t0))
    return 0


def replay(path):
    rp = json.load(open(path))
    o = vlib.Outcome(rp.get("property", "GBCAST"), "quick", 0)
    vlib.conformance(o, FAMILY, rp["trace_module"], rp["trace_cfg"], rp["pkg"], [rp["schedule"]], tag="replay")
    for p, t in o.violations:
        log("replay: " + t)
    return 1 if o.violations else 0


if __name__ == "__main__":
    import sys
    sys.exit(main(*(sys.argv[1:3] or ["quick", 1])))
