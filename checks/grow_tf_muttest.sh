#!/bin/bash
# usage: checks/grow_tf_muttest.sh <tracker|fetcher> <name> -e '<sed -E expr>' <file in repo>   |   ... <name> <patch.diff>
# Applies one mutation in a scratch worktree of /repo and runs the family's quick stage (design check skipped: it does not
# depend on the code) with VERIF_REPO pointing at it.  Prints the verdict lines.
set -u
FAM=$1; NAME=$2; shift 2
WT=/tmp/growmut_${FAM}_${NAME}_$$
git -C /repo worktree add -q --detach $WT HEAD || exit 3
cleanup() { git -C /repo worktree remove --force $WT; rm -rf /verif/.work/growmut_${NAME}_$$; }
if [ "$1" = "-e" ]; then
  sed -i -E "$2" $WT/$3 || echo "sed failed"
else
  (cd $WT && git apply "$1") || { echo "patch failed"; cleanup; exit 3; }
fi
if [ -z "$(cd $WT && git status --short)" ]; then echo "$NAME: MUTATION DID NOT APPLY"; cleanup; exit 3; fi
(cd $WT && git diff | grep '^[+-][^+-]' | head -6)
(cd $WT && GOFLAGS=-mod=mod GOPROXY=off go build ./core/... 2>&1 | head -5)
VERIF_WORK=/verif/.work/growmut_${NAME}_$$ VERIF_REPO=$WT VERIF_SKIP_MC=1 timeout 1500 python3 /verif/checks/grow_$FAM.py quick ${MUT_SEED:-1} 2>&1 \
  | grep -E "VIOLATION|KNOWN-FINDING|INFRA|OK tier|^  " | cut -c1-400 | head -8
echo "$NAME: exit=${PIPESTATUS[0]}"
cleanup
