"""C05 - a node's consensus instance acts only on authentic, well-formed peer messages
(core/consensus/qbft/qbft.go handle / verifyMsg / verifyMsgLimits / valuesByHash, msg.go verifyMsgSig / hashProto / newMsg,
core/gater.go, core/deadline.go).

A case-analysis property: specs/ConsMsgGate/ConsMsgGate.tla defines the abstract wire message (mirroring
pbv1.QBFTConsensusMsg field by field), the property as stated (Authentic) and a transcription of Consensus.handle's
checks in code order (Verdicts); TLC (a) shows transcription <=> property over every case (base shape x alteration x
position) and refutes it for each control variant (one check dropped), (b) ENUMERATES every case as a schedule.  The
executor instantiates each abstract message as a real signed protobuf and feeds it to the real handler (hook
VerifHandle); TLC validates every recorded outcome.  Sequences (state matters), clock moves, every byte of a value,
random field values, a full receive buffer and byte strings are added by a seeded generator.  The delivery clause is
checked on a real 4-node cluster over loopback libp2p against specs/ConsMsgGate/ConsDeliver.tla."""
import json, os, copy, time
from concurrent.futures import ThreadPoolExecutor
import vlib
from vlib import log

PID = "C05"
FAMILY = "ConsMsgGate"
PKG = "c05"
TRACE = ("ConsMsgGateTrace", "ConsMsgGateTrace.cfg")
NS = (4, 6, 7)            # cluster sizes (2*nodes # 2*quorum for each)


def tcfg(t):
    """Trace-spec configuration of a trace: by the cluster size in its Reset event."""
    n = t[0].get("N", 4) if t else 4
    return "ConsMsgGateTrace.cfg" if n == 4 else "ConsMsgGateTrace_n%d.cfg" % n
DTRACE = ("ConsDeliverTrace", "ConsDeliverTrace.cfg")
RULE = ("cases = base message (PRE-PREPARE r1 | PRE-PREPARE r2 with Qrc+prepares | PRE-PREPARE with unprepared Qrc | PRE-PREPARE "
        "r3 with two prepared values | ROUND-CHANGE with / without prepared certificate | PREPARE | COMMIT | DECIDED with "
        "qcommit) x position (main message, each justification) x ONE alteration: every signed field (type, duty slot, duty "
        "type, duty absent, peer_idx, round, prepared_round, value_hash, prepared_value_hash, an unknown field) set to "
        "in-range / boundary / out-of-range values either keeping the old signature (raw) or re-signed by the named source; "
        "signature absent / empty / noise / by another member / by a non-member / the same member's signature on other "
        "content; justification and value list alterations (drop, repeat, reverse, nil entry, other duty, other member, "
        "one over / exactly at each count limit, unreferenced value added, undecodable value of 4 kinds, one byte of a "
        "value altered), nil request, nil message, cancelled context - ENUMERATED by TLC from specs/ConsMsgGate (N=4); plus "
        "seeded schedules: sequences on two Consensus instances (valid messages first, then messages re-using their "
        "signatures on other content), duties of every type around their expiry / the gater window with clock moves, "
        "EVERY byte of a referenced value altered, random field values (stacked alterations), a full receive buffer, byte "
        "strings; each abstract message is instantiated as a real protobuf signed with real secp256k1 keys and sent "
        "through the real Consensus.handle; distinct = distinct (message sequence, recorded outcome) traces; the delivery "
        "clause: real 4-node clusters over loopback libp2p, every node proposing different data")
ASSUMPTIONS = [
    "crypto abstraction: a signature verifies for a message under member k's key iff k's key made it over exactly that message's "
    "other fields (ECDSA/secp256k1 is exercised for real; no forgery is attempted; 'noise' signatures never verify); hashes are "
    "injective on the values in play",
    "the handler is entered through the build-tag hook VerifHandle (thin wrapper of Consensus.handle); Consensus is built by "
    "NewConsensus with a listen-less libp2p host, beaconmock (12 s slots, 4 slots per epoch), the real core.NewDutyGater and the real "
    "deadliner (core.NewDeadlinerForT + core.NewDutyDeadlineFunc) on one clockwork.FakeClock; no instance is running, so nothing "
    "drains the receive buffers",
    "what a one-byte alteration does to a value (still the same inner message / another one / undecodable) is observed by the "
    "executor with the protobuf library alone and resolved by the spec; a byte of the type URL's host prefix leaves the value "
    "identical (verdict-preserving, as are re-ordering / repeating / dropping list entries within the limits)",
    "the gate does not judge quorum logic (qbft.isJustified: C03/C04): a well-formed message authentically signed by a member is "
    "let through whatever it claims; at the very instant of a duty's deadline either answer is allowed (C16's business)",
    "valid messages must be accepted (the spec transcribes the handler: buffer grows iff Accept), otherwise the run would be vacuous",
    "delivery clause: real qbft.Consensus components over loopback TCP libp2p with the production round timers; the agreed hash is "
    "read from each node's sniffer (a quorum of COMMITs); relations only are logged",
]
CONTROLS = [("ConsMsgGateMC_ctl_gater.cfg", "duty gater call removed"),
            ("ConsMsgGateMC_ctl_limits.cfg", "verifyMsgLimits removed"),
            ("ConsMsgGateMC_ctl_justsig.cfg", "justification signatures not verified"),
            ("ConsMsgGateMC_ctl_dutyeq.cfg", "duty equality of message and justifications not checked"),
            ("ConsMsgGateMC_ctl_refs.cfg", "referenced values not looked up by recomputed hash"),
            ("ConsMsgGateMC_ctl_expiry.cfg", "deadliner check removed"),
            ("ConsMsgGateMC_ctl_unsignedpr.cfg", "prepared_round left out of the signed hash"),
            ("ConsMsgGateMC_ctl_sigcache.cfg", "justification signature cache keyed by signature bytes only"),
            ("ConsMsgGateMC_ctl_quorumcap.cfg", "justifications capped at 2*quorum instead of 2*nodes (n=4)"),
            ("ConsMsgGateMC_ctl_quorumcap_n7.cfg", "justifications capped at 2*quorum instead of 2*nodes (n=7)")]


# ----------------------------------------------------------------------------------------------------------------
# stage 0: design check
# ----------------------------------------------------------------------------------------------------------------
def design_jobs(thorough):
    main = [("ConsMsgGateMC", "ConsMsgGateMC.cfg" if thorough else "ConsMsgGateMC_quick.cfg"),
            ("ConsMsgGateMC", "ConsMsgGateMC_full.cfg"), ("ConsMsgGateMC", "ConsMsgGateMC_n7.cfg"),
            ("ConsDeliver", "ConsDeliverMC.cfg")]
    ctl = CONTROLS
    if thorough:
        main += [("ConsMsgGateMC", "ConsMsgGateMC_quick.cfg"), ("ConsMsgGateMC", "ConsMsgGateMC_either.cfg"),
                 ("ConsMsgGateMC", "ConsMsgGateMC_n6.cfg")]
    else:       # quick: one control per kind of check (all of them in the thorough tier)
        ctl = [c for c in CONTROLS if any(k in c[0] for k in ("gater", "justsig", "refs", "sigcache", "quorumcap_n7"))]
    jobs = [(m, c, None) for m, c in main] + [("ConsMsgGateMC", c, w) for c, w in ctl] + \
           [("ConsDeliver", "ConsDeliverMC_ctl_any.cfg", "delivered value not bound to the agreed hash")]
    return jobs


def design_check(o, jobs, dirs):
    w = max(2, vlib.NCPU // 5)
    with ThreadPoolExecutor(max_workers=6) as ex:
        res = list(ex.map(lambda jd: vlib.tlc(PID, FAMILY, jd[0][0], jd[0][1], workers=w, timeout=1500, sdir=jd[1]),
                          zip(jobs, dirs)))
    for (mod, cfg, what), r in zip(jobs, res):
        if what is None:
            vlib.require_mc_ok(r, cfg)
            o.add_mc(cfg[:-4], r)
        else:
            # a dropped check lets a non-authentic message in (OnlyAuthentic); a too tight one keeps authentic ones out
            want = "DeliveredIsAgreed" if mod == "ConsDeliver" else "AcceptIffAuthentic" if "quorumcap" in cfg else "OnlyAuthentic"
            if r.violation != want:
                raise vlib.Infra("design-spec control failed: '%s' not caught by %s: %s" % (what, want, r.summary()))
            o.selftests.append({"control": "spec variant '%s' violates %s" % (what, want), "rejected_as_required": True})


# ----------------------------------------------------------------------------------------------------------------
# stage 1: schedules
# ----------------------------------------------------------------------------------------------------------------
def enumerate_cases(sdir, gcfg="ConsMsgGateGen.cfg", least=2000):
    r = vlib.tlc(PID, FAMILY, "ConsMsgGateGen", gcfg, workers=2, timeout=900, sdir=sdir)
    if not r.ok:
        raise vlib.Infra("case enumeration failed: %s\n%s" % (r.summary(), r.out[-2000:]))
    seen, out = set(), []
    for p in vlib.tagged_prints(r, "SCHED"):
        try:
            s = json.loads(p)
        except Exception as e:
            raise vlib.Infra("cannot parse generated case: %s: %s" % (e, p[:200]))
        k = json.dumps(s[1]["case"], sort_keys=True)
        if k not in seen:           # (a byte-altered value has one state per possible observation: same schedule)
            seen.add(k)
            out.append(s)
    if len(out) < least:
        raise vlib.Infra("case enumeration incomplete: %d cases" % len(out))
    out.sort(key=lambda s: json.dumps(s[1]["case"], sort_keys=True))
    return out, r


def simulate(sdir, seed, num):
    r = vlib.tlc(PID, FAMILY, "ConsMsgGateGen", "ConsMsgGateGen_sim.cfg", simulate="num=%d" % num, depth=10, seed=seed,
                 workers=1, timeout=900, sdir=sdir)
    if r.error or r.timed_out or (r.violation and r.violation != "deadlock"):
        raise vlib.Infra("schedule generation failed: %s\n%s" % (r.summary(), r.out[-2000:]))
    seen, out = set(), []
    for p in vlib.tagged_prints(r, "SCHED"):
        if p not in seen:
            seen.add(p)
            out.append(json.loads(p))
    return out


def ckey(s):
    c = s[1]["case"]
    return (c["base"], c["kind"], c["pos"], c["f"], c["x"])


# --- abstract messages in Python (mirrors the constructors of ConsMsgGate.tla; no verdict is computed here) ---------
FIELDS = ("type", "duty", "peer", "round", "pr", "vh", "pvh", "ext")


def content(q):
    return {k: copy.deepcopy(q[k]) for k in FIELDS}


def sign(q, by=None):
    q = copy.deepcopy(q)
    q["sig"] = {"kind": "ok", "by": q["peer"] if by is None else by, "over": content(q)}
    return q


def duty(slot, typ):
    return {"nil": False, "slot": slot, "type": typ}


def mkq(typ, d, peer, rnd, pr, vh, pvh, n=4):
    q = {"nil": False, "type": typ, "duty": d, "peer": peer, "round": rnd, "pr": pr, "vh": vh, "pvh": pvh, "ext": 0}
    return sign(q, peer if 0 <= peer < n else n)


def val(k):
    return {"id": k, "st": "ok", "p": 0, "x": 0}


def cons(q, just=(), vals=()):
    return {"nil": False, "msg": q, "just": list(just), "vals": list(vals)}


def recv(c, m, ctx=False, wire=False, case=None):
    st = {"ev": "Recv", "c": c, "m": m, "ctx": ctx, "wire": wire}
    if case is not None:
        st["case"] = case
    return st


def retarget(m, d, n=4):
    """The same message about another duty, every part re-signed by its source."""
    m = copy.deepcopy(m)
    for q in [m["msg"]] + m["just"]:
        if not q["nil"]:
            q["duty"] = copy.deepcopy(d)
            q["sig"] = sign(q, q["peer"] if 0 <= q["peer"] < n else n)["sig"]
    return m


def deadline(cfg, d):
    """Only used to AIM clock moves at the corners (the verdict is the spec's)."""
    ss, spe, t = cfg["SlotSec"], cfg["SPE"], d["type"]
    dur = ss // 3 if t in (1, 7) else ss if t in (10, 12) else spe * ss if t in (2, 9) else 2 * spe * ss if t in (8, 11) else ss
    return d["slot"] * ss + dur + ss // 12


def seq_schedules(r, cfg, cases, n):
    """State matters: valid messages first, then messages that re-use their signatures on other content; the same on a second
    Consensus instance that has seen nothing."""
    by_base = {}
    for s in cases:
        by_base.setdefault(s[1]["case"]["base"], []).append(s[1])
    base_of = {b: [x for x in l if x["case"]["kind"] == "none"][0] for b, l in by_base.items()}
    with_j = [b for b in by_base if base_of[b]["m"]["just"]]
    out = []
    for i in range(n):
        b = r.choice(with_j if r.random() < 0.8 else list(by_base))
        pool = [x for x in by_base[b] if x["case"]["kind"] in ("raw", "sig") and x["case"]["pos"] > 0] or by_base[b]
        if r.random() < 0.3:
            pool = by_base[b]
        ks = [r.choice(pool) for _ in range(r.randint(1, 3))]
        a, z = r.choice([(1, 2), (2, 1)])
        steps = [cfg, recv(a, base_of[b]["m"], case=base_of[b]["case"], wire=r.random() < 0.5)]
        if r.random() < 0.4:     # other bases share justification signatures (PREPAREs of round 1)
            ob = r.choice(list(by_base))
            steps.append(recv(a, base_of[ob]["m"], case=base_of[ob]["case"]))
        for k in ks:
            steps.append(recv(a, k["m"], ctx=k["ctx"], case=k["case"], wire=r.random() < 0.5))
            steps.append(recv(z, k["m"], ctx=k["ctx"], case=k["case"]))
        m = base_of[b]["m"]
        if len(m["just"]) >= 2 and r.random() < 0.6:    # signatures of two justifications exchanged
            sw = copy.deepcopy(m)
            x, y = r.sample(range(len(sw["just"])), 2)
            sw["just"][x]["sig"], sw["just"][y]["sig"] = sw["just"][y]["sig"], sw["just"][x]["sig"]
            steps.append(recv(a, sw))
            steps.append(recv(z, sw))
            mm = copy.deepcopy(m)                        # main message carrying a justification's signature
            mm["msg"]["sig"] = copy.deepcopy(m["just"][x]["sig"])
            steps.append(recv(a, mm))
        steps.append(recv(z, base_of[b]["m"], case=base_of[b]["case"]))
        steps.append(recv(z, ks[0]["m"], ctx=ks[0]["ctx"], case=ks[0]["case"]))
        out.append(steps)
    return out


def time_schedules(r, cfg, cases, n):
    """Duties of every type around their expiry and around the gater window, with clock moves."""
    ss, spe, t0 = cfg["SlotSec"], cfg["SPE"], cfg["T0"]
    cur = t0 // ss
    bases = [s[1]["m"] for s in cases if s[1]["case"]["kind"] == "none"]
    out = []
    for i in range(n):
        typ = r.choice([1, 2, 3, 4, 5, 6, 7, 8, 9, 10, 11, 12, 13, 13, 2, 1, 0, 14])
        kind = r.choice(["expiry", "expiry", "gater", "past", "mixed"])
        beyond = ((cur // spe) + 3) * spe
        if kind == "gater":
            slot = r.choice([beyond - 1, beyond, beyond + 1, beyond + spe - 1, beyond + spe])
        elif kind == "past":
            slot = r.randint(max(0, cur - 3 * spe), cur)
        else:
            slot = r.randint(cur - 1, cur + 2)
        d = duty(slot, typ)
        m = retarget(r.choice(bases), d)
        dl = deadline(cfg, d)
        steps, now = [cfg], t0
        c = r.choice([1, 2])
        for _ in range(r.randint(2, 5)):
            steps.append(recv(c if r.random() < 0.8 else 3 - c, m, wire=r.random() < 0.3))
            if kind == "gater":
                by = r.choice([1, ss, spe * ss - (now % (spe * ss)), spe * ss - (now % (spe * ss)) - 1, spe * ss])
            else:
                tgt = dl + r.choice([-1, 0, 1, 0, -2, 5])
                by = tgt - now if tgt > now else r.choice([1, 2, ss])
            if by > 0:
                steps.append({"ev": "Advance", "by": by})
                now += by
        steps.append(recv(c, m))
        steps.append(recv(3 - c, m))
        out.append(steps)
    return out


def rand_schedules(r, cfg, cases, n, N=4):
    """Random field values, stacked alterations (raw or re-signed), random signers, random value lists."""
    pools = {"type": [-5, -1, 0, 1, 2, 3, 4, 5, 6, 7, 10, 2 ** 31 - 1], "round": [-2, -1, 0, 1, 2, 3, 5, 10 ** 9],
             "pr": [-2, -1, 0, 1, 2, 5], "peer": [-3, -1, 0, 1, 2, 3, 4, 5, 7], "vh": [-3, -2, -1, 0, 1, 2, 3, 4, 90, 91, 95],
             "pvh": [-3, -2, -1, 0, 1, 2, 3, 4, 90, 91, 95], "ext": [0, 1, 2, 3]}
    out = []
    for i in range(n):
        steps = [cfg]
        for _ in range(r.randint(1, 3)):
            s = r.choice(cases)[1]
            m = copy.deepcopy(s["m"])
            if m["nil"]:
                steps.append(recv(r.choice([1, 2]), m, case=s["case"]))
                continue
            for _ in range(r.randint(1, 3)):
                parts = [m["msg"]] + m["just"]
                q = r.choice([p for p in parts if not p["nil"]] or [None])
                x = r.random()
                if q is not None and x < 0.6:
                    f = r.choice(list(pools) + ["slot", "dtype", "dutynil"])
                    if f == "slot":
                        if not q["duty"]["nil"]:
                            q["duty"]["slot"] = r.choice([0, 1, 19, 20, 39, 40, 41, 44, 51, 52, 55, 56, 60, 10 ** 6])
                    elif f == "dtype":
                        if not q["duty"]["nil"]:
                            q["duty"]["type"] = r.randint(-2, 16)
                    elif f == "dutynil":
                        q["duty"] = {"nil": True, "slot": 0, "type": 0}
                    else:
                        q[f] = r.choice(pools[f])
                    if r.random() < 0.5:
                        q["sig"] = sign(q, q["peer"] if 0 <= q["peer"] < N else N)["sig"]
                elif q is not None and x < 0.7:
                    q["sig"] = sign(q, r.randint(0, N))["sig"]
                elif q is not None and x < 0.75:
                    q["sig"] = {"kind": r.choice(["nil", "empty", "junk"]), "by": 0,
                                "over": {"type": 0, "duty": {"nil": True, "slot": 0, "type": 0}, "peer": 0, "round": 0, "pr": 0,
                                         "vh": -1, "pvh": -1, "ext": 0}}
                elif x < 0.85:
                    op = r.choice(["add", "drop", "dup", "shuffle", "undec", "byte"])
                    if op == "add":
                        m["vals"].append(val(r.randint(1, 5)))
                    elif op == "drop" and m["vals"]:
                        del m["vals"][r.randrange(len(m["vals"]))]
                    elif op == "dup" and m["vals"]:
                        m["vals"].append(copy.deepcopy(r.choice(m["vals"])))
                    elif op == "shuffle":
                        r.shuffle(m["vals"])
                    elif op == "undec":
                        m["vals"].insert(r.randint(0, len(m["vals"])), {"id": r.randint(1, 4), "st": "undec", "p": r.randint(1, 4), "x": 0})
                    elif op == "byte" and m["vals"]:
                        v = r.choice(m["vals"])
                        if v["st"] == "ok":
                            v.update({"st": "byte", "p": r.randint(0, 400), "x": r.randint(1, 255)})
                else:
                    op = r.choice(["drop", "dup", "shuffle", "nil", "many"])
                    if op == "drop" and m["just"]:
                        del m["just"][r.randrange(len(m["just"]))]
                    elif op == "dup" and m["just"]:
                        m["just"].append(copy.deepcopy(r.choice(m["just"])))
                    elif op == "shuffle":
                        r.shuffle(m["just"])
                    elif op == "many" and m["just"]:
                        m["just"] = [copy.deepcopy(r.choice(m["just"])) for _ in range(r.randint(7, 10))]
                    elif op == "nil":
                        m["just"].append({"nil": True, "type": 0, "duty": {"nil": True, "slot": 0, "type": 0}, "peer": 0, "round": 0,
                                          "pr": 0, "vh": -1, "pvh": -1, "ext": 0,
                                          "sig": {"kind": "nil", "by": 0, "over": {"type": 0, "duty": {"nil": True, "slot": 0, "type": 0},
                                                                                  "peer": 0, "round": 0, "pr": 0, "vh": -1, "pvh": -1, "ext": 0}}})
            steps.append(recv(r.choice([1, 2]), m, ctx=r.random() < 0.03, wire=r.random() < 0.5))
            if r.random() < 0.15:
                steps.append({"ev": "Advance", "by": r.choice([1, 4, 5, 6, 12, 48, 49, 50, 96])})
        out.append(steps)
    return out


def byte_schedules(r, cfg, cases, reps):
    """Every byte of every referenced value (type URL and content of the Any), `reps` masks each."""
    base = {s[1]["case"]["base"]: s[1]["m"] for s in cases if s[1]["case"]["kind"] == "none"}
    out = []
    for b, vi in (("PP1", 0), ("PP3", 0), ("PP3", 1), ("DECIDED", 0)):
        for pos in range(0, 200):
            for k in range(reps if b in ("PP1", "PP3") else 1):
                m = copy.deepcopy(base[b])
                m["vals"][vi].update({"st": "byte", "p": pos, "x": r.randint(1, 255) if k else r.choice([1, 0x80, 0xff, 0x20])})
                out.append([cfg, recv(1, m, wire=(pos + k) % 2 == 0, case={"base": b, "kind": "byte", "pos": vi, "f": "vbyte", "x": pos})])
    return out


def full_schedule(r, cfg, cases):
    """The duty's receive buffer fills up (nothing drains it): message cap+1 must be refused and change nothing."""
    base = [s[1]["m"] for s in cases if s[1]["case"]["kind"] == "none"]
    cur = cfg["T0"] // cfg["SlotSec"]
    d = duty(cur, 2)
    light = [m for m in base if len(m["just"]) == 0]
    steps = [cfg]
    for i in range(cfg["cap"]):
        m = r.choice(light)
        m = copy.deepcopy(m)
        m["msg"]["peer"], m["msg"]["round"] = r.randint(0, 3), r.randint(1, 3)
        m["msg"] = sign(m["msg"])
        steps.append(recv(1, m))
    last = r.choice(base)
    steps += [recv(1, last), recv(1, retarget(last, duty(cur + 1, 2))), recv(2, last), recv(1, last)]
    return [steps]


def raw_schedules(r, cfg, cases, n):
    base = [s[1]["m"] for s in cases if s[1]["case"]["kind"] == "none"]
    out = []
    for i in range(n):
        steps = [cfg]
        if r.random() < 0.5:
            steps.append(recv(1, r.choice(base)))
        for _ in range(r.randint(3, 12)):
            steps.append({"ev": "Raw", "c": r.choice([1, 2]), "seed": r.randint(0, 10 ** 6), "shape": r.choice(["", "", "msg", "just", "sig", "sig"]),
                          "len": r.choice([0, 1, 2, 3, 5, 8, 16, 33, 65, 65, 100, 300])})
        steps.append(recv(1, r.choice(base)))
        out.append(steps)
    return out


# ----------------------------------------------------------------------------------------------------------------
# binding self-tests
# ----------------------------------------------------------------------------------------------------------------
def mutators():
    def single(t):
        return len(t) == 2 and t[1].get("ev") == "Recv" and "case" in t[1]

    def accept_refused(t):       # a refused raw alteration reported as accepted and enqueued
        if single(t) and t[1]["case"]["kind"] == "raw" and t[1]["err"] and t[1]["db"] != -2:
            e = t[1]
            e["err"], e["ta"], e["ia"], e["da"] = False, e["tb"] + 1, e["ib"] + 1, 1
            return t
        return None

    def refuse_valid(t):         # a valid base message reported as refused, nothing enqueued
        if single(t) and t[1]["case"]["kind"] == "none" and not t[1]["err"]:
            e = t[1]
            e["err"], e["ta"], e["ia"], e["da"] = True, e["tb"], e["ib"], e["db"]
            return t
        return None

    def refused_but_enqueued(t):
        if single(t) and t[1]["case"]["kind"] == "sig" and t[1]["err"] and t[1]["db"] != -2:
            e = t[1]
            e["ta"], e["ia"], e["da"] = e["tb"] + 1, e["ib"] + 1, 1
            return t
        return None

    def accepted_not_enqueued(t):
        if single(t) and t[1]["case"]["kind"] == "none" and not t[1]["err"]:
            e = t[1]
            e["ta"], e["ia"], e["da"] = e["tb"], e["ib"], e["db"]
            return t
        return None

    def byte_obs(t):             # the altered value claimed identical although the handler refused
        if len(t) == 2 and t[1].get("ev") == "Recv" and "differs" in t[1].get("obs", []) and t[1]["err"]:
            t[1]["obs"] = ["same" if o == "differs" else o for o in t[1]["obs"]]
            return t
        return None

    def drop_advance(t):         # accepted, clock moved, the same message refused: without the clock move unexplained
        for i in range(1, len(t) - 2):
            a, b, c = t[i], t[i + 1], t[i + 2]
            if a.get("ev") == "Recv" and b.get("ev") == "Advance" and c.get("ev") == "Recv" and not a["err"] and c["err"] \
                    and a["m"] == c["m"] and a["c"] == c["c"] and not c["ctx"]:
                del t[i + 1]
                return t[:i + 2]
        return None

    def drop_recv(t):            # an accepted message's event dropped: the next event's counts no longer fit
        for i in range(1, len(t) - 1):
            if t[i].get("ev") == "Recv" and not t[i]["err"] and t[i + 1].get("ev") == "Recv" and t[i + 1]["c"] == t[i]["c"]:
                del t[i]
                return t
        return None

    def sniffer_called(t):
        if single(t):
            t[1]["sniffed"] = 1
            return t
        return None
    return [("refused alteration reported accepted", accept_refused), ("valid message reported refused", refuse_valid),
            ("refused message enqueued", refused_but_enqueued), ("accepted message not enqueued", accepted_not_enqueued),
            ("byte-altered value claimed identical", byte_obs), ("Advance event dropped", drop_advance),
            ("Recv event dropped", drop_recv), ("sniffer called by a message", sniffer_called)]


def dmutators():
    def other_bytes(t):
        for e in t:
            if e.get("ev") == "Deliver" and e["commit"] > 0:
                e["bytes"] = e["bytes"] % t[0]["NN"] + 1
                e["hash"] = e["bytes"]
                return t
        return None

    def hash_mismatch(t):
        for e in t:
            if e.get("ev") == "Deliver":
                e["hash"] = e["hash"] % t[0]["NN"] + 1
                return t
        return None

    def unproposed(t):
        for i, e in enumerate(t):
            if e.get("ev") == "Deliver":
                v = e["bytes"]
                return [x for x in t if not (x.get("ev") == "Propose" and x["node"] == v)]
        return None
    return [("delivered bytes are another node's proposal", other_bytes), ("payload hash differs from payload", hash_mismatch),
            ("delivered value never proposed", unproposed)]


def check_anomalies(tag):
    p = os.path.join(vlib.workdir(PID), "trace_%s.ndjson" % tag)
    if not os.path.exists(p):
        return
    for e in vlib.read_ndjson(p):
        if e.get("ev") == "Anomaly":
            raise vlib.Infra("executor anomaly (%s): %s" % (e.get("what"), json.dumps(e)[:600]))


def read_traces(tag):
    return vlib.split_traces(vlib.read_ndjson(os.path.join(vlib.workdir(PID), "trace_%s.ndjson" % tag)))


def conf(o, scheds, tag, **kw):
    try:
        vlib.conformance(o, FAMILY, TRACE[0], tcfg, PKG, scheds, tag=tag, key=lambda t: t[1:], **kw)
    except vlib.Infra as e:
        # once a violation has been reproduced the verdict is VIOLATION; trouble in a later stage (for instance a
        # rejection that depends on state left behind by other schedules and does not reproduce alone) does not mask it
        if not o.violations:
            raise
        o.notes.append("stage %s after a reproduced violation: %s" % (tag, str(e)[:300]))
    check_anomalies(tag)
    check_anomalies(tag + "_re")


def run(tier, seed):
    o = vlib.Outcome(PID, tier, seed)
    thorough = tier == "thorough"
    jobs = design_jobs(thorough)
    gdir, sdir = vlib.scratch(PID, FAMILY), vlib.scratch(PID, FAMILY)      # (scratch() is not thread-safe: allocate up front)
    ndirs = {n: vlib.scratch(PID, FAMILY) for n in NS[1:]}
    dirs = [vlib.scratch(PID, FAMILY) for _ in jobs]
    with ThreadPoolExecutor(max_workers=5) as ex:
        f1 = ex.submit(enumerate_cases, gdir)
        fn = {n: ex.submit(enumerate_cases, ndirs[n], "ConsMsgGateGen_n%d%s.cfg" % (n, "" if thorough else "_quick"), 200)
              for n in NS[1:]}
        f2 = ex.submit(simulate, sdir, seed, 250 if thorough else 25)
        f0 = ex.submit(design_check, o, jobs, dirs)
        f0.result()
        cases, g = f1.result()
        ncases = {n: f.result()[0] for n, f in fn.items()}
        sim = f2.result()
    cfg = cases[0][0]
    log("[%s] design check + %d cases enumerated by TLC (%.1fs) + %d simulated sequences: %.0fs"
        % (PID, len(cases), g.wall, len(sim), time.time() - o.t0))
    # field cross-check first: a protobuf field the spec does not know (or the reverse) is an infrastructure failure
    vlib.run_schedules(PID, PKG, "TestExec", cases[:1], tag="probe")
    check_anomalies("probe")
    r = vlib.rng(seed, "c05")
    for s in cases:
        s[1]["wire"] = r.random() < 0.5
    conf(o, cases, "cases", chunk=250)
    tr_cases = read_traces("cases")
    accepted = sum(1 for t in tr_cases if len(t) == 2 and not t[1].get("err", True))
    if not o.violations and (accepted == 0 or accepted == len(tr_cases)):
        raise vlib.Infra("vacuous run: %d of %d cases accepted" % (accepted, len(tr_cases)))
    # other cluster sizes: the count limits at / one over their maximum, the largest justification an honest leader attaches
    for n in NS[1:]:
        for sc in ncases[n]:
            sc[1]["wire"] = r.random() < 0.5
        conf(o, ncases[n], "cases_n%d" % n, chunk=200)
        extra = rand_schedules(r, ncases[n][0][0], ncases[n], 150 * (6 if thorough else 1), N=n)
        conf(o, extra, "random_n%d" % n, chunk=100)
    boundary = {}
    for n in NS:
        for t in read_traces("cases" if n == 4 else "cases_n%d" % n):
            c = t[1].get("case", {}) if len(t) == 2 else {}
            lab = c.get("f") if c.get("kind") == "list" else "honest-maximal" if (c.get("kind"), c.get("base")) == ("none", "PPmax") else None
            if lab in ("jatlimit", "jexceed", "vatlimit", "vexceed", "honest-maximal"):
                k = "n=%d %s (%d justifications, %d values)" % (n, lab, len(t[1]["m"]["just"]), len(t[1]["m"]["vals"]))
                boundary.setdefault(k, {"accepted": 0, "refused": 0})["refused" if t[1]["err"] else "accepted"] += 1
        for lab in ("jatlimit", "jexceed", "vatlimit", "vexceed", "honest-maximal"):
            if not any(k.startswith("n=%d %s " % (n, lab)) for k in boundary):
                raise vlib.Infra("count-limit boundary case %s missing for n=%d" % (lab, n))
    conf(o, sim, "tlcsim")
    k = 6 if thorough else 1
    conf(o, seq_schedules(r, cfg, cases, 300 * k), "seq", chunk=100)
    conf(o, time_schedules(r, cfg, cases, 400 * k), "time", chunk=100)
    conf(o, rand_schedules(r, cfg, cases, 1200 * k), "random", chunk=250)
    conf(o, byte_schedules(r, cfg, cases, 4 if thorough else 1), "bytes", chunk=300)
    conf(o, full_schedule(r, cfg, cases) + raw_schedules(r, cfg, cases, 60 * k), "fullraw", chunk=20)
    # every byte position of the altered values must have been hit
    pos = {}
    for t in read_traces("bytes"):
        for e in t[1:]:
            for vi, bp in enumerate(e.get("bpos", [])):
                if bp[0] >= 0:
                    pos.setdefault((e["case"]["base"], vi, bp[1]), set()).add(bp[0])
    for (b, vi, ln), ps in pos.items():
        if len(ps) < ln:
            raise vlib.Infra("byte coverage incomplete: %d of %d positions of a value" % (len(ps), ln))
    obs = {}
    for t in read_traces("bytes"):
        for ob in t[1].get("obs", []):
            if ob != "-":
                obs[ob] = obs.get(ob, 0) + 1
    # delivery clause on real clusters
    cl = [[{"ev": "Cluster", "n": 4, "slot": r.randint(1, 1000), "seed": seed * 100 + i}] for i in range(6 if thorough else 1)]
    try:
        vlib.conformance(o, FAMILY, DTRACE[0], DTRACE[1], PKG, cl, test="TestCluster", tag="cluster", exec_timeout=600)
    except vlib.Infra as e:
        if not o.violations:
            raise
        o.notes.append("stage cluster after a reproduced violation: %s" % str(e)[:300])
    check_anomalies("cluster")
    unobserved = sum(1 for t in read_traces("cluster") for e in t if e.get("ev") == "Deliver" and e.get("commit") == 0)
    if unobserved:
        o.notes.append("%d delivery event(s) without a visible commit quorum (relation to the agreed hash unobserved there)" % unobserved)
    # binding negative controls on recorded traces
    n0 = len(o.selftests)
    pool = tr_cases + read_traces("time") + read_traces("seq") + read_traces("bytes")
    vlib.binding_selftest(o, FAMILY, TRACE[0], TRACE[1], pool, mutators())
    vlib.binding_selftest(o, FAMILY, DTRACE[0], DTRACE[1], read_traces("cluster"), dmutators())
    observed = any(e.get("ev") == "Deliver" and e.get("commit", 0) > 0 for t in read_traces("cluster") for e in t)
    if len(o.selftests) - n0 < 8 + (3 if observed else 2) and not o.violations:
        raise vlib.Infra("binding self-test: some negative control found no applicable trace (%d)" % (len(o.selftests) - n0))
    return vlib.finish(o, "exploration", RULE, ASSUMPTIONS,
                       extra_cov={"cases_enumerated_by_tlc": len(cases), "case_classes": len({ckey(s)[1:2] + ckey(s)[3:4] for s in cases}),
                                  "cases_accepted": accepted, "cases_refused": len(tr_cases) - accepted,
                                  "byte_positions_altered": sum(len(p) for p in pos.values()), "byte_alteration_outcomes": obs,
                                  "clusters_run": len(cl), "count_limit_boundary": boundary,
                                  "cluster_sizes": list(NS), "exhaustive": False})


def replay(path):
    rp = json.load(open(path))
    o = vlib.Outcome(PID, "quick", 0)
    cfg = tcfg if rp["trace_module"] == TRACE[0] else rp["trace_cfg"]
    vlib.conformance(o, FAMILY, rp["trace_module"], cfg, rp["pkg"], [rp["schedule"]], test=rp.get("test", "TestExec"), tag="replay")
    check_anomalies("replay")
    for p, t in o.violations:
        log("replay: " + t)
    return 1 if o.violations else 0
