"""C02 - consensus agreement: honest members never decide different values (core/qbft/qbft.go)."""
import vlib, qbft_common as qc
from vlib import log

RULE = ("schedules for the real qbft.Run of every honest member: (a) TLC-simulated behaviours of QBFTGen incl. the spec's "
        "Byzantine repertoire, replayed step by step; (b) a seeded online scheduler in the executor (n=3..7, up to f Byzantine "
        "members crafting equivocating votes, forged/true prepared claims, PRE-PREPAREs with chosen justifications, DECIDED "
        "with real/too small/duplicate-padded COMMIT sets; reordering, loss, duplication, timeouts); every step's complete "
        "output is validated against QBFT.tla; distinct = distinct recorded traces")
COMBOS_Q = [(4, 0, [3]), (4, 1, [0]), (4, 2, []), (5, 0, [2]), (7, 3, [1, 5]), (3, 1, []), (6, 2, [4])]
COMBOS_T = COMBOS_Q + [(4, 3, [1]), (5, 4, []), (6, 5, [0]), (7, 0, [6, 2]), (7, 6, [3]), (4, 0, [2]), (5, 2, [4])]


def run(tier, seed, pid="C02"):
    o = vlib.Outcome(pid, tier, seed)
    thorough = tier == "thorough"
    # stage 0: design checks
    mc = [("QBFTMC_H3q.cfg", 600)] if not thorough else [("QBFTMC_H3q.cfg", 900), ("QBFTMC_H3r1.cfg", 1500)]
    for cfg, to in mc:
        r = vlib.tlc(pid, qc.FAMILY, "QBFTMC", cfg, timeout=to)
        vlib.require_mc_ok(r, cfg)
        o.add_mc(cfg, r)
    r = vlib.tlc(pid, qc.FAMILY, "QBFTMC", "QBFTMC_ctl_floorquorum.cfg", timeout=600)
    if not r.violation:
        raise vlib.Infra("design-spec control failed: quorum floor(2n/3) variant not caught: " + r.summary())
    o.selftests.append({"control": "spec with quorum = floor(2n/3) violates Agreement", "rejected_as_required": True})
    for cfg in (["QBFTMC_sim4.cfg"] if not thorough else ["QBFTMC_sim4.cfg", "QBFTMC_sim7.cfg", "QBFTMC_sim4cmp.cfg"]):
        vlib.simulate_timeboxed(o, qc.FAMILY, "QBFTMC", cfg, 200 if thorough else 25, seed=seed, workers=8 if thorough else 4)
    if thorough:
        for cfg in ["QBFTMC_W4rc.cfg", "QBFTMC_W4pp.cfg", "QBFTMC_W4d.cfg", "QBFTMC_W4votes.cfg", "QBFTMC_W4d_b2.cfg",
                    "QBFTMC_W4votes_b2.cfg", "QBFTMC_W4rc_b2.cfg"]:
            r = vlib.tlc(pid, qc.FAMILY, "QBFTMC", cfg, timeout=1500)
            vlib.require_mc_ok(r, cfg)
            o.add_mc(cfg, r)
    qc.quorum_arith(o)
    if thorough:
        qc.quorum_proof(o)
    # stage 1-3
    gen = []
    for k, (inst, byz) in enumerate([(1, "3"), (0, "0")] if not thorough else [(1, "3"), (0, "0"), (2, "1"), (3, "")]):
        gen += qc.tlc_gen_schedules(pid, seed + k, dict(N=4, Inst=inst, Byz=byz, CompareFail="", Inputs="InputsA",
                                                        MaxRound=3, MaxTimeouts=4, DupBudget=2, MaxByz=5, GenLen=70),
                                    num=40 if thorough else 20, depth=80, limit=400 if thorough else 60)
    vlib.conformance(o, qc.FAMILY, "QBFTTrace", qc.trace_cfg_of, "c02", gen, tag="tlcgen")
    combos = COMBOS_T if thorough else COMBOS_Q
    rnd = qc.random_schedules(seed, "c02", combos, 40 if thorough else 6, 400 if thorough else 220, pbyz=14)
    # round-change heavy runs with a lagging member: justification rules J1/J2, F+1 jumps, DECIDED catch-up
    rnd += qc.random_schedules(seed, "c02rc", combos, 40 if thorough else 6, 500 if thorough else 300, pbyz=18,
                               ptimeout=12, plag=70, pdup=8)
    # compare extension (a member's own Compare rejects a proposed value: no PREPARE of its own, but it still follows the
    # others' quorums and must report what it prepared): agreement must survive the compareFailureRound deviations
    rnd += qc.random_schedules(seed, "c02cmp", combos[:6], 30 if thorough else 4, 400 if thorough else 260,
                               inputs_mode="any", ptimeout=10, pbyz=10, cfail_mode=True)
    vlib.conformance(o, qc.FAMILY, "QBFTTrace", qc.trace_cfg_of, "c02", rnd, tag="random", replay_of=qc.trace_to_schedule)
    vlib.conformance(o, qc.FAMILY, "QBFTTrace", qc.trace_cfg_of, "c02", qc.scenario_schedules(seed, "c02", 6 if thorough else 1),
                     tag="scenario", replay_of=qc.trace_to_schedule)
    # component tier (Byzantine plans against the real consensus components; the liveness probe belongs to C04)
    import conscluster
    conscluster.stage(o, tier, seed, probe_finding=False)
    tr = vlib.split_traces(vlib.read_ndjson(vlib.workdir(pid) + "/trace_random.ndjson"))
    vlib.binding_selftest(o, qc.FAMILY, "QBFTTrace", qc.trace_cfg_of, tr, qc.mutators())
    decided = sum(1 for t in tr for e in t if e.get("ev") == "Deliver" and e.get("rule") in ("QC", "JD"))
    o.extra["decisions_observed"] = decided
    return vlib.finish(o, "model_checking", RULE,
                       ["the generic qbft.Run is driven through its own callbacks (no hook); transport authenticity is the caller's job (C05)",
                        "A1: justification lists hold at most one ROUND-CHANGE per (source, round) apart from exact duplicates",
                        "A2: only ROUND-CHANGE messages carry a prepared round/value", "A3: FIFO limit not reached",
                        "exhaustive only inside the stated micro-configurations; breadth from simulation and the random executor"])


def replay(path):
    return qc.replay("C02", path)
