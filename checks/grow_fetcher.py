"""GROWTH family Fetcher - core/fetcher (fetcher.go, graffiti.go): duty-type dispatch of Fetch, the dependency ORDER on other
components (proposer: aggregated randao from AggSigDB, then the block with exactly that randao; aggregator: beacon-committee
selection, is-aggregator, attestation data through the registered AwaitAttData, aggregate by that data's root; sync
contribution: selection per subcommittee, sync message, contribution by its block root), dependencies that fail or never arrive
(context), skipped definitions (non-aggregators), subscriber fan-out with clones, FetchOnly's early attestation-data cache.

Oracle: specs/Fetcher (Fetcher.tla: one action per blocking point; FetcherMC; FetcherTrace).  Executor: harness/fetcher (real
fetcher.New over a gated beacon client and gated registered functions, inside testing/synctest).

Use from another check:   import grow_fetcher; grow_fetcher.stage(o, tier, seed)
Stand-alone:              python3 checks/grow_fetcher.py [quick|thorough] [seed]
"""
import json, os, sys
sys.path[:0] = [os.path.join(os.path.dirname(os.path.dirname(os.path.abspath(__file__))), "tools")]
from concurrent.futures import ThreadPoolExecutor
import vlib
from vlib import log

FAMILY = "Fetcher"
PKG = "fetcher"
FINDING = "GROW-FETCHER-reorg-straddle"
DEV_CFGS = [(FINDING, "FetcherTrace_dev_straddle.cfg")]

MC_QUICK = ["FetcherMC_quick_att.cfg", "FetcherMC_quick_prop.cfg", "FetcherMC_quick_agg.cfg", "FetcherMC_quick_sync.cfg",
            "FetcherMC_quick_sync1.cfg"]
MC_THOROUGH = MC_QUICK + ["FetcherMC_att_idx.cfg", "FetcherMC_conc.cfg"]
CONTROLS = [("FetcherMC_ctl_noaggcheck.cfg", ("AggOnlySelected",), "non-aggregators are not skipped"),
            ("FetcherMC_ctl_zerorandao.cfg", ("RandaoBinding",), "the proposal is requested without the aggregated randao"),
            ("FetcherMC_ctl_stalecache.cfg", ("CacheSound", "CacheFresh"), "a chain reorg does not invalidate the early cache"),
            ("FetcherMC_ctl_anyhead.cfg", ("CacheSound",), "early data is cached whatever head it votes for"),
            ("FetcherMC_ascoded_straddle.cfg", ("CacheFresh",), "as coded: an early fetch that straddles a reorg is cached")]


def D(vidx, cidx=0, clen=0, idxs=()):
    return {"vidx": vidx, "cidx": cidx, "clen": clen, "idxs": list(idxs)}


def val(c, tok, flag=False):
    return {"ev": "Release", "c": c, "ans": {"a": "val", "tok": tok, "flag": flag}}


def err(c, kind):
    return {"ev": "Release", "c": c, "ans": {"a": "err", "kind": kind}}


def nil(c):
    return {"ev": "Release", "c": c, "ans": {"a": "nil"}}


def config(r):
    gp = r.choice([["a"], ["a", "b"], ["b", "a", "c"]])
    return {"ev": "Config", "electra": r.choice([0, 2, 2, 9]), "only0": r.random() < 0.5, "builder": r.random() < 0.5,
            "nsubs": r.choice([1, 2, 2, 3]), "suberr": r.choice([0, 0, 0, 1, 2]), "v2": r.choice(["unreg", "yes", "yes", "no"]),
            "gmode": r.choice(["nil", "single", "multi"]), "gbase": {"a": "ga", "b": "graffiti-b", "c": "x"},
            "gappend": r.random() < 0.6, "gprod": r.choice(["Lighthouse", "teku", "Prysm", "Nimbus", "Lodestar", "Grandine", "Other", ""]),
            "gpks": gp}


def defs_for(r, typ):
    pks = r.choice([["a"], ["a", "b"], ["a", "b"], ["a", "b", "c"], ["b", "c"]])
    if r.random() < 0.04:
        pks = []
    out = {}
    for i, p in enumerate(pks):
        v = {"a": 1, "b": 2, "c": 3}[p]
        if typ in ("attester", "aggregator"):
            out[p] = D(v, r.choice([1, 1, 2, 3]), r.choice([16, 31, 32, 64, 64, 128]))
        elif typ == "sync_contribution":
            out[p] = D(v, 0, 0, r.choice([[], [5], [130], [5, 130], [130, 5, 6], [5, 130, 260, 400], [511, 0]]))
        else:
            out[p] = D(v)
    return out


def random_schedules(seed, count, big):
    """One to three calls (concurrently), every pending dependency answered in turn: mostly values (tokens 1..3, selected /
    not selected), now and then an error, no data, or the caller's context ends; early fetch + scheduled fetch of the same
    slot with matching / other head, reorgs (never while an early fetch is in flight: that is the directed probe),
    eviction by a later slot."""
    r = vlib.rng(seed, "grow_fetcher")
    out = []
    for _ in range(count):
        s = [config(r)]
        kind = r.choice(["single", "single", "single", "cache", "cache", "conc"])
        if kind == "single":
            typ = r.choice(["attester", "proposer", "proposer", "aggregator", "aggregator", "sync_contribution", "sync_contribution",
                            "randao", "builder_proposer", "exit"])
            s.append({"ev": "Fetch", "c": 1, "duty": {"slot": r.choice([1, 2, 3]), "type": typ}, "defs": defs_for(r, typ)})
            bad = r.random() < 0.35
            n = r.randint(2, 16)
            badat = r.randrange(n) if bad else -1
            for i in range(n):
                if i == badat:
                    s.append(r.choice([err(1, "bn"), err(1, "other"), nil(1), {"ev": "Cancel", "c": 1}]))
                else:
                    s.append(val(1, r.choice([1, 1, 2, 3]), r.random() < 0.6))
        elif kind == "cache":
            slot = r.choice([1, 2, 3])
            d1 = defs_for(r, "attester")
            head = r.choice([1, 1, 2])
            s.append({"ev": "FetchOnly", "c": 1, "duty": {"slot": slot, "type": r.choice(["attester"] * 9 + ["proposer"])}, "defs": d1,
                      "addr": r.choice(["bn1", "http://bn2:5052"]), "head": head})
            for i in range(r.randint(1, 4)):
                x = r.random()
                s.append(val(1, head if x < 0.75 else 3 - head) if x < 0.92 else r.choice([err(1, "bn"), nil(1), {"ev": "Cancel", "c": 1}]))
            for i in range(3):
                s.append(val(1, head))      # drain (no reorg may happen while the early fetch is in flight)
            nxt = 2
            if r.random() < 0.3:
                s.append({"ev": "Reorg"})
            if r.random() < 0.3:            # a later head event evicts (or an earlier one does not)
                s.append({"ev": "FetchOnly", "c": nxt, "duty": {"slot": slot + r.choice([-1, 1, 1]), "type": "attester"},
                          "defs": defs_for(r, "attester"), "addr": "bn1", "head": 1})
                for i in range(4):
                    s.append(val(nxt, 1))
                nxt += 1
            s.append({"ev": "Fetch", "c": nxt, "duty": {"slot": slot, "type": "attester"}, "defs": d1})
            for i in range(r.randint(0, 4)):
                s.append(val(nxt, r.choice([1, 2])))
            if r.random() < 0.5:            # the cache entry is consumed: a second fetch goes to the beacon node
                s.append({"ev": "Fetch", "c": nxt + 1, "duty": {"slot": slot, "type": "attester"}, "defs": d1})
                for i in range(3):
                    s.append(val(nxt + 1, 2))
        else:
            types = [r.choice(["attester", "proposer", "aggregator", "sync_contribution"]) for _ in range(r.randint(2, 3))]
            for c, typ in enumerate(types, 1):
                s.append({"ev": "Fetch", "c": c, "duty": {"slot": r.choice([1, 2]), "type": typ}, "defs": defs_for(r, typ)})
            for i in range(r.randint(6, 30)):
                c = r.randint(1, len(types))
                x = r.random()
                if x < 0.88:
                    s.append(val(c, r.choice([1, 2, 3]), r.random() < 0.6))
                elif x < 0.94:
                    s.append(err(c, r.choice(["bn", "other"])))
                elif x < 0.97:
                    s.append(nil(c))
                else:
                    s.append({"ev": "Cancel", "c": c})
        out.append(s)
    return out


BASE = {"ev": "Config", "electra": 2, "only0": True, "builder": True, "nsubs": 2, "suberr": 0, "v2": "yes", "gmode": "multi",
        "gbase": {"a": "ga", "b": "gb", "c": "gc"}, "gappend": True, "gprod": "teku", "gpks": ["a", "b"]}


def directed_schedules():
    out = []
    fetch = lambda c, slot, typ, defs: {"ev": "Fetch", "c": c, "duty": {"slot": slot, "type": typ}, "defs": defs}
    # aggregators: same committee shares the aggregate; non-selected skipped; short committee always selected; nobody selected
    for flags in ((True, True), (True, False), (False, True), (False, False)):
        for clen in (16, 64):
            defs = {"a": D(1, 1, 64), "b": D(2, 1, clen)}
            out.append([BASE, fetch(1, 1, "aggregator", defs)] + [val(1, 1, flags[0]), val(1, 2, flags[1]), val(1, 3, flags[0]),
                                                                  val(1, 1, flags[1]), val(1, 2, True), val(1, 3, False), val(1, 1)])
    # proposer: different randaos per validator, blinded / full, builder boost off
    out.append([dict(BASE, builder=False, gmode="nil"), fetch(1, 1, "proposer", {"a": D(1), "b": D(2)}), val(1, 1), val(1, 3, True),
                val(1, 2), val(1, 1, False)])
    # sync contribution: plural / single encoding, shared contribution per (subcommittee, root), different roots
    for v2 in ("yes", "no", "unreg"):
        for roots in ((1, 1), (1, 2)):
            defs = {"a": D(1, 0, 0, [5, 130]), "b": D(2, 0, 0, [6, 131])}
            seq = [val(1, 1, True), val(1, roots[0]), val(1, 1), val(1, 1, True), val(1, roots[0]), val(1, 2),
                   val(1, 1, True), val(1, roots[1]), val(1, 3), val(1, 1, True), val(1, roots[1]), val(1, 3), val(1, 1), val(1, 1)]
            out.append([dict(BASE, v2=v2), fetch(1, 1, "sync_contribution", defs)] + seq)
    # the second subscriber is refused / the first one
    for se in (1, 2):
        out.append([dict(BASE, suberr=se, nsubs=3), fetch(1, 1, "attester", {"a": D(1, 1, 64), "b": D(2, 2, 64)}), val(1, 1), val(1, 2)])
    # early cache: hit, consumed once; other head: not cached; reorg invalidates; a later slot evicts, an earlier one does not
    defs = {"a": D(1, 1, 64), "b": D(2, 2, 64)}
    only = lambda c, slot, head: {"ev": "FetchOnly", "c": c, "duty": {"slot": slot, "type": "attester"}, "defs": defs, "addr": "bn1", "head": head}
    for cfg in (BASE, dict(BASE, only0=False)):
        out.append([cfg, only(1, 3, 1), val(1, 1), val(1, 1), fetch(2, 3, "attester", defs), val(2, 2), val(2, 2),
                    fetch(3, 3, "attester", defs), val(3, 2), val(3, 2)])
        out.append([cfg, only(1, 3, 1), val(1, 1), val(1, 2), fetch(2, 3, "attester", defs), val(2, 2), val(2, 2)])
        out.append([cfg, only(1, 3, 1), val(1, 1), val(1, 1), {"ev": "Reorg"}, fetch(2, 3, "attester", defs), val(2, 2), val(2, 2)])
        out.append([cfg, only(1, 2, 1), val(1, 1), val(1, 1), only(2, 3, 1), val(2, 1), val(2, 1), fetch(3, 2, "attester", defs), val(3, 2), val(3, 2)])
        out.append([cfg, only(1, 3, 1), val(1, 1), val(1, 1), only(2, 2, 1), val(2, 1), val(2, 1), fetch(3, 3, "attester", defs), val(3, 2), val(3, 2)])
    return out


def straddle_probe():
    defs = {"a": D(1, 1, 64)}
    return [[BASE, {"ev": "FetchOnly", "c": 1, "duty": {"slot": 3, "type": "attester"}, "defs": defs, "addr": "bn1", "head": 1},
             {"ev": "Reorg"}, val(1, 1), {"ev": "Fetch", "c": 2, "duty": {"slot": 3, "type": "attester"}, "defs": defs}, val(2, 2)]]


def straddles(s):
    """A reorg while an early fetch may be in flight (syntactic over-approximation)."""
    open_only = False
    for e in s:
        if e.get("ev") == "FetchOnly":
            open_only = True
        elif e.get("ev") == "Reorg" and open_only:
            return True
    return False


def mutators():
    def first(t, pred):
        for i, e in enumerate(t):
            if pred(e):
                return i
        return None

    def delivery_dropped(t):
        i = first(t, lambda e: len(e.get("del") or []) >= 2)
        if i is None:
            return None
        t[i]["del"] = t[i]["del"][:-1]
        return t

    def delivered_token_replaced(t):
        i = first(t, lambda e: any(d["set"] and "tok" in d["set"][0] for d in e.get("del") or []))
        if i is None:
            return None
        for d in t[i]["del"]:
            if d["set"] and "tok" in d["set"][0]:
                d["set"][0]["tok"] += 1
                return t
        return None

    def skipped_validator_delivered(t):
        # an aggregator that was not selected shows up in the set
        for e in t:
            for d in e.get("del") or []:
                if d["duty"]["type"] == "aggregator" and len(d["set"]) == 1:
                    other = "b" if d["set"][0]["pk"] == "a" else "a"
                    for x in e["del"]:
                        x["set"] = sorted(x["set"] + [{"pk": other, "tok": d["set"][0]["tok"]}], key=lambda z: z["pk"])
                    return t
        return None

    def wrong_randao(t):
        i = first(t, lambda e: e.get("st", {}).get("req", {}).get("r") == "bn_prop")
        if i is None:
            return None
        t[i]["st"]["req"]["randao"] += 1
        return t

    def dependency_skipped(t):
        # the aggregate is requested right after the selection (attestation data never awaited)
        i = first(t, lambda e: e.get("st", {}).get("req", {}).get("r") == "attdata")
        if i is None or i + 1 >= len(t) or t[i + 1].get("st", {}).get("req", {}).get("r") != "bn_agg":
            return None
        t[i]["st"] = t[i + 1]["st"]
        del t[i + 1]
        return t

    def result_despite_error(t):
        i = first(t, lambda e: e.get("ev") == "Release" and e["ans"]["a"] == "err" and e.get("st", {}).get("status") == "done")
        if i is None:
            return None
        t[i]["st"] = {"status": "done", "result": "ok", "ekind": ""}
        return t[:i + 1]

    def error_kind_lost(t):
        i = first(t, lambda e: e.get("st", {}).get("ekind") in ("bn", "cancel"))
        if i is None:
            return None
        t[i]["st"]["ekind"] = "internal"
        return t

    def cache_not_consumed(t):
        # a fetch that the spec sends to the beacon node is reported as served at once
        i = first(t, lambda e: e.get("ev") == "Fetch" and e["duty"]["type"] == "attester" and e["st"]["status"] == "blocked")
        if i is None:
            return None
        t[i]["st"] = {"status": "done", "result": "ok", "ekind": ""}
        return t[:i + 1]

    def graffiti_replaced(t):
        i = first(t, lambda e: e.get("st", {}).get("req", {}).get("r") == "bn_prop")
        if i is None:
            return None
        t[i]["st"]["req"]["graffiti"] += "!"
        return t
    return [("one subscriber invocation dropped", delivery_dropped), ("delivered value replaced", delivered_token_replaced),
            ("a non-selected aggregator delivered", skipped_validator_delivered), ("proposal requested with another randao", wrong_randao),
            ("attestation-data dependency skipped", dependency_skipped), ("result despite a failed dependency", result_despite_error),
            ("error kind lost", error_kind_lost), ("fetch served without beacon node or cache", cache_not_consumed),
            ("graffiti replaced", graffiti_replaced)]


def _mc_start(o, thorough):
    if os.environ.get("VERIF_SKIP_MC"):
        o.notes.append("Fetcher design check skipped (VERIF_SKIP_MC)")
        return None
    cfgs = MC_THOROUGH if thorough else MC_QUICK
    jobs = [(cfg, vlib.scratch(o.pid, FAMILY)) for cfg in cfgs + [c for c, _, _ in CONTROLS]]
    workers = max(2, vlib.NCPU // (4 if thorough else 8))
    ex = ThreadPoolExecutor(max_workers=len(jobs))
    futs = [ex.submit(vlib.tlc, o.pid, FAMILY, "FetcherMC", cfg, workers=workers, timeout=1700, sdir=d) for cfg, d in jobs]
    return cfgs, futs, ex


def _mc_finish(o, started):
    if started is None:
        return
    cfgs, futs, ex = started
    res = [f.result() for f in futs]
    ex.shutdown()
    for cfg, r in zip(cfgs, res):
        vlib.require_mc_ok(r, "Fetcher/" + cfg)
        o.add_mc("Fetcher/" + cfg[:-4], r)
    for (cfg, invs, what), r in zip(CONTROLS, res[len(cfgs):]):
        if r.violation not in invs:
            raise vlib.Infra("Fetcher design-spec control failed: '%s' not caught (%s): %s" % (what, "/".join(invs), r.summary()))
        o.selftests.append({"control": "Fetcher spec variant '%s' violates %s" % (what, r.violation), "rejected_as_required": True})


def stage(o, tier, seed):
    thorough = tier == "thorough"
    n0 = len(o.selftests)
    mc = _mc_start(o, thorough)
    _conformance(o, thorough, seed)
    _mc_finish(o, mc)
    return len(o.selftests) - n0


def _conformance(o, thorough, seed):
    bg = ThreadPoolExecutor(max_workers=1)       # TLC simulation runs in the background while the probe is executed
    genf = bg.submit(vlib.gen_schedules, o.pid, FAMILY, "FetcherGen", "FetcherGen.cfg", num=2500 if thorough else 200, depth=40,
                     seed=seed)
    rnd = random_schedules(seed, 6000 if thorough else 500, thorough)
    kw = dict(chunk=200)
    # known finding (an early fetch that straddles a chain reorg is cached): one directed probe through the regular
    # known-finding path; the other schedules that can contain the situation are validated with the deviation switched on iff
    # the probe showed it
    vlib.conformance(o, FAMILY, "FetcherTrace", "FetcherTrace.cfg", PKG, straddle_probe(), tag="ftc_probe", dev_cfgs=DEV_CFGS, **kw)
    as_coded = any(fid == FINDING for fid, _ in o.known)
    gen, _ = genf.result()
    bg.shutdown()
    rr = vlib.rng(seed, "grow_fetcher/gen")
    rr.shuffle(gen)
    gen = gen[:5000 if thorough else 300]
    cfgs = {False: ("FetcherTrace.cfg", open(os.path.join(vlib.SPECS, FAMILY, "FetcherTrace.cfg")).read()),
            True: ("FetcherTrace_dev_straddle.cfg", open(os.path.join(vlib.SPECS, FAMILY, "FetcherTrace_dev_straddle.cfg")).read())}
    vlib.conformance(o, FAMILY, "FetcherTrace", lambda t: cfgs[as_coded and straddles(t)], PKG, directed_schedules() + gen + rnd,
                     tag="ftc_main", **kw)
    # binding negative controls on recorded traces
    tr = vlib.split_traces(vlib.read_ndjson(vlib.workdir(o.pid) + "/trace_ftc_main.ndjson"))
    muts = mutators()
    before = len(o.selftests)
    tr = [t for t in tr if not straddles(t)]
    vlib.binding_selftest(o, FAMILY, "FetcherTrace", "FetcherTrace.cfg", tr, muts)
    if len(o.selftests) - before < len(muts) and not o.violations:
        raise vlib.Infra("Fetcher binding self-test: some negative control found no applicable trace")
    # vacuity
    seen = {"deliveries": 0, "cachehits": 0, "errors": 0, "reqs": set(), "skipped": 0}
    for tag in ("ftc_main",):
        p = vlib.workdir(o.pid) + "/trace_%s.ndjson" % tag
        if not os.path.exists(p):
            continue
        for t in vlib.split_traces(vlib.read_ndjson(p)):
            for e in t:
                seen["deliveries"] += len(e.get("del") or [])
                st = e.get("st") or {}
                if st.get("status") == "blocked":
                    seen["reqs"].add(st["req"]["r"] + ":" + st["req"].get("dtype", ""))
                if st.get("result") == "err":
                    seen["errors"] += 1
                if e.get("ev") == "Fetch" and e["duty"]["type"] == "attester" and st.get("status") == "done" and e.get("del") and e["defs"]:
                    seen["cachehits"] += 1
                for d in e.get("del") or []:
                    if d["duty"]["type"] == "aggregator" and len(d["set"]) < len(e.get("defs") or d["set"]):
                        seen["skipped"] += 1
    o.extra["fetcher_observed"] = {"subscriber_invocations": seen["deliveries"], "cache_hits": seen["cachehits"], "failed_calls": seen["errors"],
                                   "request_kinds": sorted(seen["reqs"])}
    if (seen["deliveries"] < 100 or seen["cachehits"] < 5 or seen["errors"] < 30 or len(seen["reqs"]) < 9) and not o.violations:
        raise vlib.Infra("vacuous Fetcher run: %s" % seen)


RULE = ("Fetcher: schedules = configuration (electra slot, committee-index-0 mode, builder, subscribers and which one refuses, sync "
        "contribution encoding, graffiti) + Fetch / FetchOnly(duty, definitions) / Release(call, answer) / Cancel(call) / Reorg; "
        "generated by TLC simulation of FetcherGen, a seeded random generator and directed corners; executed on the real "
        "fetcher.New inside testing/synctest")
ASSUMPTIONS = ["Fetcher: AggSigDB / DutyDB awaits and the beacon node's duty-data endpoints are gated stubs that return the caller's "
               "context error when it ends (as the real components do); Spec and NodeVersion answer at once; subscribers are "
               "synchronous; values are recognised by tokens",
               "Fetcher: known finding " + FINDING + ": early attestation data whose fetch straddles a chain reorg is cached"]


def main(tier="quick", seed=1):
    o = vlib.Outcome("GROWF", tier, seed)
    vlib.workdir(o.pid, fresh=True)
    stage(o, tier, seed)
    return vlib.finish(o, "model_checking", RULE, ASSUMPTIONS)


if __name__ == "__main__":
    try:
        sys.exit(main(sys.argv[1] if len(sys.argv) > 1 else "quick", int(sys.argv[2]) if len(sys.argv) > 2 else 1))
    except vlib.Infra as e:
        print("INFRA-ERROR: %s" % e)
        sys.exit(2)
