"""GROWTH family "P2PSender" - p2p/sender.go (Sender.SendReceive / SendAsync, the package functions SendReceive / Send,
withRelayRetry, addResult with the per-peer failure hysteresis and its two log lines, the protocol list built by
WithDelimitedProtocol, the send time-out / stream deadline, the RTT callback), p2p/receive.go (RegisterHandler: what the
stream handler does with one inbound stream: read deadline and context, protonil check, handler result -> response or not,
error paths, Close), p2p/gater.go (ConnGater / open gater, MutablePeer relays) and p2p/relay.go (NewRelayReserver with the
exponential back-off of app/expbackoff, NewRelayRouter) against a scripted relay.

Not a registered check: `stage(o, tier, seed)` runs the family as a stage (the Outcome `o` collects coverage and
violations); `main(tier, seed)` is a stand-alone driver, `replay(path)` re-runs a replay file."""
import json, os, re, time
import vlib
from vlib import log

FAMILY = "P2PSender"
PKG = "p2psender"
TRACE = "P2PSenderTrace"
TCFG = "P2PSenderTrace.cfg"
FINDING = "GROW-P2PSENDER-addresult-race"
WORKERS = int(os.environ.get("VERIF_TLC_WORKERS", "0")) or None

RULE = ("P2PSender family: schedules = timed stimuli on a 4-host in-memory libp2p network (go-libp2p mocknet, wrapped streams) -- "
        "calls of Sender.SendReceive / Sender.SendAsync / p2p.SendReceive / p2p.Send with their options (protocols added by "
        "WithDelimitedProtocol, send time-out, non-zero response proto, live or cancelled context) and a script per attempt for the "
        "network and the remote handler (what NewStream returns: stream / swarm.DialError / ErrReset / ErrResourceScopeClosed / other; "
        "write, CloseWrite and read outcomes incl. the benign 'canceled stream' error; travel time and fate of request and response: "
        "delivered / reset / dropped / lost; handler latency, the 7 shapes of (response, ok, error), handlers that honour their "
        "context), cancellation of the caller's context, links going down and up, a relay's MutablePeer changing identity, direct "
        "queries of the five ConnGater methods; generated (a) by TLC simulation of P2PSenderGen (history variable; the model's "
        "coincidences -- response in the instant of the deadline, handler returning when its context ends -- are reproduced) and (b) by "
        "a seeded random generator aiming at the hysteresis (runs of failures / successes per peer, dial errors, two peers "
        "interleaved), the deadlines (before / at / after) and the gater.  Executed on the real code inside testing/synctest (virtual "
        "time, exact); every trace validated by P2PSenderTrace.tla; Sender.addResult's real granularity is model-checked separately "
        "(AddResultFine.tla) and its race probed on the real code.  Second part (RelayLoop.tla): the real NewRelayReserver / "
        "NewRelayRouter hooks with the real expbackoff and libp2p's circuit-v2 client against a scripted relay (grant until ... / "
        "refuse / reset / expiration in the past, in runs), the relay's MutablePeer set late, connection and link to the relay cut, "
        "context ended, samples of the peer store's relay routes; validated by RelayLoopTrace.tla")
ASSUMPTIONS = [
    "testing/synctest virtual time stands in for real time; the wrapped mocknet streams are the network of the specification "
    "(they implement the stream deadlines, which mocknet ignores, and the scripted fates)",
    "which of the protocols common to both ends a stream runs is libp2p's choice (first offered one the peer is KNOWN to support, "
    "else first offered one it accepts): the specification demands the order of the offer and membership, not the choice",
    "results for the same (host, peer) pair never complete in the same instant in the generated schedules, except failures caused "
    "by one link event; for those a duplicate warning in the instant of the state change is tolerated (Sender.addResult is not "
    "atomic: finding " + FINDING + ", model-checked in AddResultFine.tla, reproduced by TestAddResultRace)",
    "the connection gaters are consulted by the wrapped host in libp2p's order (peer dial, addr dial, accept, secured, upgraded) "
    "whenever a connection has to be made; mocknet's own gater hook is not usable (unexported option, and its rejection path "
    "leaves a goroutine blocked on a mutex)",
    "relay part: reservations are granted for more than the 2 min refresh margin (a shorter grant makes NewRelayReserver "
    "re-reserve at once, for ever -- observation, not judged); circuit.Reserve takes no virtual time; back-off delays are judged "
    "with expbackoff.DefaultConfig (1 s, x1.6, +-20 %, max 120 s) and one microsecond of slack",
    "the log lines of the stream handler are accepted when they match the session's fate but are not demanded (the doc comments "
    "do not promise them); the two lines of Sender.addResult are demanded exactly",
]

U = 10          # ms per model time unit of P2PSenderGen
STEP = 0.1      # ms: calls of one (host, peer) pair are shifted by multiples of this: no two of them complete in one instant
LINK_OFF = 5    # ms: link events / relay changes sit at x5 ms


def base_cfg(gated, relays, srv2=None, srv3=None, open_=()):
    s2 = {"host": 2, "base": "A", "delims": ["B"], "rto": 0, "reqtype": "duty", "limit": 8}
    s3 = {"host": 3, "base": "A", "delims": [], "rto": 0, "reqtype": "psx", "limit": 0}
    s2.update(srv2 or {})
    s3.update(srv3 or {})
    return {"ev": "Cfg", "hosts": 4, "srv": [s2, s3], "cluster": [1, 2, 3], "gated": sorted(gated), "open": sorted(open_),
            "relays": list(relays)}


class Shift:
    """distinct sub-millisecond offsets per (from, peer) pair"""
    def __init__(self):
        self.n = {}

    def of(self, frm, peer):
        k = self.n.get((frm, peer), 0)
        self.n[(frm, peer)] = k + 1
        return k * STEP


# ----------------------------------------------------------------------------------------------------------------------
# (a) histories of P2PSenderGen -> schedules
# ----------------------------------------------------------------------------------------------------------------------
def from_hist(rec):
    plan, hist = rec["plan"], rec["h"]
    cfg = base_cfg(plan["gated"], plan["relay0"], srv2={"rto": 20 * U}, srv3={"rto": 20 * U})
    steps, calls, sh = [], {}, Shift()
    last = {}        # (c, a) -> time of the last recorded event
    flush, hstart, hend = {}, {}, {}

    def att(c, a):
        sc = calls[c]["att"]
        while len(sc) < a:
            sc.append({})
        return sc[a - 1]

    def start(c, a):
        if a <= 1:
            return calls[c]["_t"]
        return last.get((c, 1), calls[c]["_t"]) + 10

    for e in hist:
        ev, t, c, a = e["ev"], e["t"], e["c"], e["a"]
        if ev == "Call":
            x = e["x"]
            off = sh.of(x["from"], x["peer"])
            calls[c] = {"ev": "Call", "at": t * U + off, "c": c, "kind": x["kind"], "from": x["from"], "peer": x["peer"], "rq": x["rq"],
                        "base": x["base"], "delims": x["delims"], "sto": x["sto"] * U, "nonzero": x["nonzero"], "ctx": x["ctx"], "att": [],
                        "_t": t, "_off": off}
            steps.append(calls[c])
            continue
        if ev == "Link":
            steps.append({"ev": "Link", "at": t * U + LINK_OFF, "a": e["a"], "b": e["x"], "up": e["up"]})
            continue
        if ev == "RelaySet":
            steps.append({"ev": "RelaySet", "at": t * U + LINK_OFF + 1, "r": 1, "id": e["x"]})
            continue
        if c not in calls:
            continue
        if ev == "CtxCancel":
            steps.append({"ev": "CtxCancel", "at": t * U + calls[c]["_off"], "c": c})
            continue
        a = max(a, 1)
        sc = att(c, a)
        fl = flush.get((c, a), start(c, a))
        if ev == "NSRet":
            sc["ns"] = e["x"]
        elif ev == "WErr":
            sc["w"] = e["x"]
        elif ev == "CloseW":
            flush[(c, a)] = t
            if e["x"] != "ok":
                sc["cw"] = e["x"]
        elif ev == "HStart":
            hstart[(c, a)] = t
            sc["reqd"] = max(0, t - fl) * U
        elif ev == "SReadErr":
            sc["reqfate"] = {"timeout": "lost", "relay": "reset", "other": "drop"}[e["x"]]
            sc["reqd"] = max(0, t - fl) * U
        elif ev == "HEnd":
            hend[(c, a)] = t
            sc["hlat"] = max(0, t - hstart.get((c, a), t)) * U
            sc["hres"] = e["x"]
            sc["hon"] = bool(e.get("hon"))
        elif ev == "SWErr":
            sc["sw"] = e["x"]
        elif ev == "CRead":
            sc["respfate"] = {"ok": "deliver", "timeout": "lost", "relay": "reset", "other": "drop"}[e["x"]]
            sc["respd"] = max(0, t - hend.get((c, a), max(fl, hstart.get((c, a), fl)))) * U
        last[(c, a)] = t
    for c in calls.values():
        c.pop("_t"), c.pop("_off")
        if not c["att"]:
            c["att"] = [{}]
    steps.sort(key=lambda s: s["at"])
    return [cfg] + steps


# ----------------------------------------------------------------------------------------------------------------------
# (b) seeded random schedules
# ----------------------------------------------------------------------------------------------------------------------
def attempt(r, sto, rto, kind, calm=False):
    """one attempt's script; delays aim at the two time-outs"""
    if calm:
        return {}
    sc = {}
    aim = [0, 0, 0, 10, 50, 200, rto - 10, rto, rto + 10, sto - 10, sto, sto + 10, r.choice([20, 70, 500, 1500])]
    x = r.random()
    if x < 0.22:
        sc["ns"] = r.choice(["relay", "relay", "scope", "dial", "dial", "other"])
        return sc
    if r.random() < 0.07:
        sc["w"] = r.choice(["relay", "other", "stall"])
        return sc
    if kind in ("sr", "psr") and r.random() < 0.15:
        sc["cw"] = r.choice(["canceled", "canceled", "relay", "other"])
    if r.random() < 0.4:
        sc["reqd"] = max(0, r.choice(aim))
    if r.random() < 0.15:
        sc["reqfate"] = r.choice(["reset", "drop", "lost"])
    if r.random() < 0.5:
        sc["hlat"] = max(0, r.choice(aim))
    sc["hres"] = r.choice(["resp"] * 6 + ["nil", "empty", "false", "false", "respfalse", "err", "err", "resperr"])
    sc["hon"] = r.random() < 0.4
    if r.random() < 0.07:
        sc["sw"] = r.choice(["relay", "other"])
    if r.random() < 0.35:
        sc["respd"] = max(0, r.choice(aim))
    if r.random() < 0.15:
        sc["respfate"] = r.choice(["reset", "reset", "drop", "lost"])
    return sc


def random_mixed(r, big):
    gated = r.choice([[], [], [2], [2], [2, 3], [1, 2]])
    open_ = r.choice([[], [3], []]) if 3 not in gated else []
    relays = r.choice([[-1], [-1], [4], [3]])
    rto2, rto3 = r.choice([0, 0, 200, 1000]), r.choice([0, 200, 2000])
    cfg = base_cfg(gated, relays, srv2={"rto": rto2, "delims": r.choice([["B"], ["B"], ["B", "C"], []]), "limit": r.choice([8, 8, 0])},
                   srv3={"rto": rto3, "base": r.choice(["A", "A", "B"])}, open_=open_)
    steps, sh, t = [], Shift(), 0
    n = r.randint(2, 10 if big else 8)
    for c in range(1, n + 1):
        t += r.choice([0, 0, 10, 100, 100, 500, 1000, 3000, 8000])
        kind = r.choice(["sr"] * 4 + ["async"] * 3 + ["psr", "send"])
        frm = r.choice([1] * 6 + [4])
        peer = r.choice([2, 2, 2, 3, 3, 4 if frm != 4 else 2])
        sto = r.choice([0, 0, 300, 1000, 3000])
        rto = {2: rto2, 3: rto3}.get(peer, 0) or 5000
        stoe = sto or 7000
        call = {"ev": "Call", "at": t + sh.of(frm, peer), "c": c, "kind": kind, "from": frm, "peer": peer,
                "rq": {"shape": r.choice(["full"] * 5 + ["empty", "big"]), "slot": c}, "base": "A",
                "delims": r.choice([[], [], ["B"], ["B"], ["C", "B"], ["B", "C"], ["C"]]), "sto": sto,
                "nonzero": kind in ("sr", "psr") and r.random() < 0.06, "ctx": "canceled" if r.random() < 0.08 else "live",
                "att": [attempt(r, stoe, rto, kind), attempt(r, stoe, rto, kind, calm=r.random() < 0.5)]}
        steps.append(call)
        if r.random() < 0.12:
            steps.append({"ev": "CtxCancel", "at": call["at"] + r.choice([0, 100, 100, 1000]), "c": c})
    horizon = t + 1000
    for _ in range(r.choice([0, 0, 1, 2])):
        a, b = r.choice([(1, 2), (1, 2), (1, 3), (2, 4)])
        t0 = r.choice(range(0, horizon, 10)) + LINK_OFF
        steps.append({"ev": "Link", "at": t0, "a": a, "b": b, "up": False})
        if r.random() < 0.6:
            steps.append({"ev": "Link", "at": t0 + r.choice([10, 100, 1000, 5000]), "a": a, "b": b, "up": True})
    for _ in range(r.choice([0, 1, 1, 2])):
        steps.append({"ev": "RelaySet", "at": r.choice(range(0, horizon, 10)) + LINK_OFF + 1, "r": 1, "id": r.choice([4, 4, 3, 2])})
    gs = sorted(set(gated) | set(open_))
    for _ in range(r.choice([0, 2, 4]) if gs else 0):
        steps.append({"ev": "Gate", "at": r.choice(range(0, horizon, 10)) + LINK_OFF + 2, "g": r.choice(gs),
                      "fn": r.choice(["secured"] * 4 + ["peerdial", "addrdial", "accept", "upgraded"]), "id": r.choice([1, 2, 3, 4, 4, 50]),
                      "dir": r.choice([0, 1, 2])})
    steps.sort(key=lambda s: s["at"])
    return [cfg] + steps


def random_hyst(r):
    """runs of results for the hysteresis: one call after the other, results chosen per call, two peers interleaved"""
    cfg = base_cfg([], [-1])
    steps, sh, t = [], Shift(), 0
    pat = r.choice(["FSSS", "FFSSFSSS", "SFSSSF", "FSSFSSSS", "DSSSF", "FDSSSD", "", "", ""])
    n = 10
    for c in range(1, n + 1):
        t += r.choice([100, 1000, 1000, 8000])
        peer = r.choice([2, 2, 2, 3])
        want = pat[c - 1] if c <= len(pat) and peer == 2 else r.choice("FFSSSSSD")
        kind = r.choice(["sr", "sr", "async"])
        if want == "S":
            a = [{"hres": "resp", "hlat": r.choice([0, 10])}]
            if r.random() < 0.2:
                a = [{"ns": "relay"}, a[0]]
        elif want == "D":
            a = [{"ns": "dial"}]
            if r.random() < 0.3:
                a = [{"ns": "relay"}, {"ns": "dial"}]
        else:
            a = [r.choice([{"ns": "other"}, {"hres": "false"}, {"hres": "err"}, {"reqfate": "drop"}, {"respfate": "drop"}, {"w": "other"},
                           {"ns": "relay"}, {"hlat": 400, "hres": "resp"}])]
            if a[0].get("ns") == "relay":
                a.append(r.choice([{"ns": "scope"}, {"ns": "other"}, {"respfate": "reset"}]))
        if kind == "async" and want == "F" and "hres" in a[0] and "hlat" not in a[0]:
            a = [{"ns": "other"}]          # p2p.Send does not wait for the handler: its verdict is no failure
        if kind == "async" and a[0].get("hlat") == 400:
            a = [{"w": "other"}]
        steps.append({"ev": "Call", "at": t + sh.of(1, peer), "c": c, "kind": kind, "from": 1, "peer": peer, "rq": {"shape": "full", "slot": c},
                      "base": "A", "delims": [], "sto": 300, "nonzero": False, "ctx": "live", "att": a})
    return [cfg] + steps


def random_gater(r):
    gated = r.choice([[2], [2, 3], [1, 2, 3], [2]])
    relays = r.choice([[-1], [4], [4, -1], [3]])
    cfg = base_cfg(gated, relays, open_=[h for h in (3,) if h not in gated and r.random() < 0.5])
    steps, sh, t = [], Shift(), 0
    for c in range(1, r.randint(3, 8) + 1):
        t += r.choice([10, 100, 1000])
        frm = r.choice([1, 4, 4, 4])
        peer = r.choice([2, 2, 3])
        steps.append({"ev": "Call", "at": t + sh.of(frm, peer), "c": c, "kind": r.choice(["psr", "psr", "sr", "send", "async"]), "from": frm, "peer": peer,
                      "rq": {"shape": "full", "slot": c}, "base": "A", "delims": [], "sto": 0, "nonzero": False, "ctx": "live", "att": [{}]})
        if r.random() < 0.5:
            steps.append({"ev": "RelaySet", "at": t + LINK_OFF + 1, "r": r.randint(1, len(relays)), "id": r.choice([4, 4, 3, 1])})
        if r.random() < 0.3:
            a, b = r.choice([(2, 4), (3, 4), (1, 2)])
            steps.append({"ev": "Link", "at": t + LINK_OFF, "a": a, "b": b, "up": False})
            steps.append({"ev": "Link", "at": t + LINK_OFF + 3, "a": a, "b": b, "up": True})
        for _ in range(r.choice([0, 1, 3])):
            steps.append({"ev": "Gate", "at": t + LINK_OFF + 2, "g": r.choice(gated + cfg["open"]), "fn": r.choice(["secured"] * 5 + ["peerdial", "addrdial", "accept", "upgraded"]),
                          "id": r.choice([1, 2, 3, 4, 4, 50]), "dir": r.choice([0, 1, 2])})
    steps.sort(key=lambda s: s["at"])
    return [cfg] + steps


def random_schedules(seed, nmixed, nhyst, ngater, big):
    r = vlib.rng(seed, "p2psender-rnd")
    return [random_mixed(r, big) for _ in range(nmixed)] + [random_hyst(r) for _ in range(nhyst)] + [random_gater(r) for _ in range(ngater)]


# ----------------------------------------------------------------------------------------------------------------------
# relay part: schedules for the reserver / router hooks against the scripted relay
# ----------------------------------------------------------------------------------------------------------------------
def random_relay(r, k):
    known = r.random() < 0.7
    replies = []
    while len(replies) < 16:
        if r.random() < 0.5:
            replies += [{"res": r.choice(["refused", "refused", "reset", "past", "noinfo"])} for _ in range(r.choice([1, 1, 2, 3, 5, 8, 12]))]
        replies += [{"res": "ok", "ttl": r.choice([121, 125, 130, 150, 180, 240, 300, 600])} for _ in range(r.choice([1, 1, 2, 3]))]
    stop = r.choice([20, 60, 150, 300, 400, 700, 900]) * 1000 + r.choice([0, 0, 250, 500, 777])
    steps = [{"ev": "Start", "at": r.choice([0, 0, 5, 1000])}]
    if r.random() < 0.8:
        steps.append({"ev": "RStart", "at": r.choice([0, 0, 3, 2000])})
    if not known and r.random() < 0.85:
        steps.append({"ev": "RelaySet", "at": r.choice([1, 5000, 9999, 10000, 10001, 15000, 25000, 107999, 108000])})
    for _ in range(r.choice([0, 1, 2, 3])):
        steps.append({"ev": "Disc", "at": r.randrange(0, stop, 250) + r.choice([0, 0, 1, 100])})
    for _ in range(r.choice([0, 0, 1, 2])):
        t0 = r.randrange(0, stop, 500) + r.choice([0, 3])
        steps.append({"ev": "Link", "at": t0, "up": False})
        steps.append({"ev": "Link", "at": t0 + r.choice([100, 1000, 5000, 30000, 120000]), "up": True})
    for _ in range(r.choice([2, 4, 8])):
        base = r.choice([0, 108000, 216000, 120000, 228000, stop, stop + 120000, stop + 12000, r.randrange(0, stop + 130000)])
        steps.append({"ev": "Route", "at": max(0, base + r.choice([-1, 0, 0, 1, 50, 11999, 12000, 12001])), "p": r.choice([3, 4])})
    steps.append({"ev": "Stop", "at": stop})
    steps.sort(key=lambda s: (s["at"], s["ev"] == "Stop"))
    return [{"ev": "Cfg", "known": known, "keyset": k % 7, "replies": replies}] + steps


def relay_schedules(seed, n):
    r = vlib.rng(seed, "p2psender-relay")
    return [random_relay(r, k) for k in range(n)]


def relay_mutators():
    def first(t, pred, start=0):
        for k in range(start, len(t)):
            if pred(t[k]):
                return k
        return None

    def retry_early(t):
        # the attempt after a failure 10 % of the shortest admissible delay too early (with everything after it)
        for k, e in enumerate(t):
            if e["ev"] == "RWarn":
                j = first(t, lambda x: x["ev"] in ("Resv", "RWarn", "ROk"), k + 1)
                if j is None or any(x["ev"] in ("Stop", "Link", "Disc") for x in t[k:j]):
                    continue
                d = (t[j]["t"] - e["t"]) // 4
                if d <= 0:
                    continue
                for x in t[j:]:
                    x["t"] -= d
                    if x["ev"] == "Resv":
                        x["exp"] -= d - d % 1000000
                return t
        return None

    def no_reset(t):
        # the first retry after a success comes as late as a third consecutive failure would
        k = first(t, lambda e: e["ev"] == "ROk")
        if k is None:
            return None
        w = first(t, lambda e: e["ev"] == "RWarn", k)
        if w is None:
            return None
        j = first(t, lambda x: x["ev"] in ("Resv", "RWarn", "ROk"), w + 1)
        if j is None or any(x["ev"] in ("Stop", "Link", "Disc") for x in t[w:j]) or t[j]["t"] - t[w]["t"] != 1000000:
            return None
        for x in t[j:]:
            x["t"] += 1560000
        return t

    def late_refresh(t):
        k = first(t, lambda e: e["ev"] == "RRefresh" and not any(x["ev"] == "RNoConn" and x["t"] == e["t"] for x in t))
        if k is None:
            return None
        for x in t[k:]:
            x["t"] += 1000000
        return t

    def attempt_after_stop(t):
        k = first(t, lambda e: e["ev"] == "Stop")
        j = first(t, lambda e: e["ev"] == "Resv")
        if k is None or j is None or j > k:
            return None
        ev = dict(t[j])
        ev["t"] = t[k]["t"]
        t.insert(k + 1, ev)
        return t

    def route_flip(t):
        k = first(t, lambda e: e["ev"] == "Route")
        if k is None:
            return None
        t[k]["has"] = not t[k]["has"]
        return t

    def grant_ignored(t):
        k = first(t, lambda e: e["ev"] == "ROk")
        if k is None:
            return None
        t[k] = {"ev": "RWarn", "level": "warn", "t": t[k]["t"]}
        return t

    def exit_missing(t):
        k = first(t, lambda e: e["ev"] == "Exit")
        if k is None:
            return None
        del t[k]
        return t

    return [("retry before the back-off ended", retry_early), ("back-off not reset by a success", no_reset),
            ("reservation refreshed 1 s late", late_refresh), ("a reservation requested after the context ended", attempt_after_stop),
            ("relay route seen / not seen", route_flip), ("a granted reservation treated as a failure", grant_ignored),
            ("the reserver hook never returned", exit_missing)]


# ----------------------------------------------------------------------------------------------------------------------
# binding self-tests: corrupt one recorded field / drop or move one event of an accepted trace -> must be rejected
# ----------------------------------------------------------------------------------------------------------------------
def mutators():
    def first(t, pred):
        for k, e in enumerate(t):
            if pred(e):
                return k
        return None

    def edit(pred, fn):
        def m(t):
            k = first(t, pred)
            if k is None:
                return None
            return fn(t, k)
        return m

    def drop(t, k):
        del t[k]
        return t

    def setf(field, val):
        def f(t, k):
            t[k][field] = val(t[k][field]) if callable(val) else val
            return t
        return f

    def retry_early(t):
        k = first(t, lambda e: e["ev"] == "NS" and e["a"] == 2)
        if k is None:
            return None
        c = t[k]["c"]
        for e in t[k:]:
            if e.get("c") == c and e["ev"] in ("NS", "NSRet", "DL", "CW", "CCW", "CClose", "Ret", "Log") and e["t"] == t[k]["t"]:
                pass
        t[k]["t"] -= 50000
        # keep the log ordered by time: move the event before everything later than it
        ev = t.pop(k)
        j = k
        while j > 0 and t[j - 1]["t"] > ev["t"]:
            j -= 1
        t.insert(j, ev)
        return t

    def other_response(t):
        k = first(t, lambda e: e["ev"] == "Ret" and e["err"] == "ok" and e["rv"] > 0)
        if k is None:
            return None
        t[k]["rv"] += 10
        return t

    def swap_protos(t):
        k = first(t, lambda e: e["ev"] == "NS" and len(e["protos"]) >= 2)
        if k is None:
            return None
        t[k]["protos"] = list(reversed(t[k]["protos"]))
        return t

    def extra_warn(t):
        # a second failure while failing logs again
        k = first(t, lambda e: e["ev"] == "Log" and e["kind"] == "sendfail")
        if k is None:
            return None
        p, tt = t[k]["p"], t[k]["t"]
        for j in range(k + 1, len(t)):
            e = t[j]
            if e["ev"] == "Ret" and e["err"] not in ("ok", "dial") and e["t"] > tt:
                c = e["c"]
                call = next((x for x in t if x["ev"] == "Call" and x["c"] == c), None)
                if call and call["peer"] == p and call["kind"] == "sr" and not any(x["ev"] == "Log" and x["c"] == c for x in t):
                    t.insert(j, {"ev": "Log", "kind": "sendfail", "level": "warn", "c": c, "p": p, "t": e["t"]})
                    return t
        return None

    return [
        ("error class returned to the caller changed", edit(lambda e: e["ev"] == "Ret" and e["err"] == "other", setf("err", "ok"))),
        ("response value of another request returned", other_response),
        ("client Close not observed", edit(lambda e: e["ev"] == "CClose", drop)),
        ("handler invoked with another request", edit(lambda e: e["ev"] == "HStart" and e["rq"]["shape"] == "full", lambda t, k: (t[k]["rq"].update(slot=t[k]["rq"]["slot"] + 1), t)[1])),
        ("handler invocation not observed", edit(lambda e: e["ev"] == "HStart", drop)),
        ("warning of a state change missing", edit(lambda e: e["ev"] == "Log" and e["kind"] == "sendfail", drop)),
        ("recovery line missing", edit(lambda e: e["ev"] == "Log" and e["kind"] == "recovered", drop)),
        ("recovery logged as a failure", edit(lambda e: e["ev"] == "Log" and e["kind"] == "recovered", setf("kind", "sendfail"))),
        ("a suppressed failure logged", extra_warn),
        ("stream deadline 1 s late", edit(lambda e: e["ev"] == "DL" and e["side"] == "c", setf("d", lambda d: d + 1000000))),
        ("read deadline of the handler 1 s early", edit(lambda e: e["ev"] == "DL" and e["side"] == "s", setf("d", lambda d: d - 1000000))),
        ("handler context with another deadline", edit(lambda e: e["ev"] == "HStart", setf("dl", lambda d: d + 1))),
        ("protocols offered in the opposite order", swap_protos),
        ("limited connections not allowed", edit(lambda e: e["ev"] == "NS", setf("lim", False))),
        ("retry 50 ms early", retry_early),
        ("response written although the handler returned none", edit(lambda e: e["ev"] == "HEnd" and e["res"] == "resp", setf("res", "respfalse"))),
        ("another value written than the handler returned", edit(lambda e: e["ev"] == "SW" and e["v"] > 0, setf("v", lambda v: v + 1))),
        ("gater verdict flipped", edit(lambda e: e["ev"] == "Gate" and e["fn"] == "secured", setf("res", lambda b: not b))),
        ("RTT off by 1 ms", edit(lambda e: e["ev"] == "RTT", setf("d", lambda d: d + 1000))),
        ("a stream left open", edit(lambda e: e["ev"] == "End", setf("streams", 1))),
        ("a goroutine left in package p2p", edit(lambda e: e["ev"] == "End", setf("gor", 1))),
        ("handler's Close not observed", edit(lambda e: e["ev"] == "SClose", drop)),
        ("SendAsync sees the caller's cancelled context", edit(lambda e: e["ev"] == "NS" and e["cx"] == "live" and e["ctxdl"] is False, setf("cx", "canceled"))),
    ]


# ----------------------------------------------------------------------------------------------------------------------
CONTROLS = [("P2PSenderMC_ctl_recover2.cfg", "HysteresisExact", "back to ok after 2 successes"),
            ("P2PSenderMC_ctl_noSuppress.cfg", "HysteresisExact", "every failure is logged"),
            ("P2PSenderMC_ctl_trim3.cfg", "HysteresisExact", "buffer trimmed to 3: never recovers"),
            ("P2PSenderMC_ctl_warnDial.cfg", "HysteresisExact", "dial errors are logged"),
            ("P2PSenderMC_ctl_sharedState.cfg", "PeerIndependence", "one hysteresis state for all peers"),
            ("P2PSenderMC_ctl_retryAll.cfg", "RetryOnce", "every error is retried"),
            ("P2PSenderMC_ctl_noRetry.cfg", "RetryOnce", "relay errors are not retried"),
            ("P2PSenderMC_ctl_noSleep.cfg", "RetryOnce", "retry without the pause"),
            ("P2PSenderMC_ctl_dlRecv.cfg", "Deadlines", "stream deadline from the receive time-out"),
            ("P2PSenderMC_ctl_asyncParentCtx.cfg", "AsyncDetached", "SendAsync sends under the caller's context"),
            ("P2PSenderMC_ctl_respOnFalse.cfg", "ResponseOnlyIfPresent", "response written although the handler said none"),
            ("P2PSenderMC_ctl_respOnErr.cfg", "ResponseMatch", "response written although the handler failed"),
            ("P2PSenderMC_ctl_noCloseOnErr.cfg", "ClientCloses", "stream not closed on the error paths"),
            ("P2PSenderMC_ctl_crossTalk.cfg", "ResponseMatch", "a response of another stream is read"),
            ("P2PSenderMC_ctl_twice.cfg", "HandlerOnce", "handler invoked twice on one stream"),
            ("P2PSenderMC_ctl_noProtonil.cfg", "HandlerOnce", "no protonil check"),
            ("P2PSenderMC_ctl_appendProto.cfg", "ProtoPreference", "WithDelimitedProtocol appends"),
            ("P2PSenderMC_ctl_staleRelay.cfg", "GaterContract", "gater remembers the relay's first identity"),
            ("P2PSenderMC_ctl_live.cfg", "temporal", "liveness control: 'every request is answered'")]
FINE_BAD = [("AddResultFine_ascoded_panic.cfg", "NoPanic", "index out of range in addResult's loop"),
            ("AddResultFine_ascoded_lost.cfg", "NoLostResult", "first results of two goroutines: one peerState is lost"),
            ("AddResultFine_ascoded_dupwarn.cfg", "WarnOnce", "a state change logged twice")]
FINE_OK = ["AddResultFine_fixed_a.cfg", "AddResultFine_fixed_b.cfg", "AddResultFine_fixed_c.cfg"]
RELAY_CONTROLS = [("RelayLoopMC_ctl_noReset.cfg", "BackoffGrows", "back-off not reset by a success"),
                  ("RelayLoopMC_ctl_noGrow.cfg", "BackoffGrows", "retries not counted"),
                  ("RelayLoopMC_ctl_noBackoff.cfg", "BackoffBetween", "retry at once"),
                  ("RelayLoopMC_ctl_lateRefresh.cfg", "RefreshInTime", "refresh at the expiration"),
                  ("RelayLoopMC_ctl_ignoreStop.cfg", "NoAttemptAfterStop", "loop ignores the ended context"),
                  ("RelayLoopMC_ctl_routeAll.cfg", "RoutesOnlyDialed", "routes for every peer"),
                  ("RelayLoopMC_ctl_slowRouter.cfg", "RoutesKept", "router period longer than the address TTL")]
RELAY_QUICK = ["RelayLoopMC_quick.cfg"]
RELAY_THOROUGH = ["RelayLoopMC_thorough.cfg", "RelayLoopMC_unknown.cfg", "RelayLoopMC_live.cfg"]
QUICK_MC = ["P2PSenderMC_quick.cfg", "P2PSenderMC_hyst.cfg", "P2PSenderMC_time.cfg", "P2PSenderMC_proto.cfg", "P2PSenderMC_gater.cfg",
            "P2PSenderMC_live.cfg"]
THOROUGH_MC = ["P2PSenderMC_stream.cfg", "P2PSenderMC_quick2.cfg", "P2PSenderMC_hyst6.cfg", "P2PSenderMC_hyst_thorough.cfg",
               "P2PSenderMC_time_thorough.cfg", "P2PSenderMC_proto.cfg", "P2PSenderMC_gater.cfg", "P2PSenderMC_live.cfg"]


def design_check(o, tier, seed):
    """Design check, the controls that MUST be violated, the fine-grained model of addResult and the schedule generation --
    independent TLC runs side by side (vlib.scratch is not thread-safe: the scratch dirs are made first).  Returns the
    generated histories as soon as the generation runs are done and a function that waits for the model-checking runs."""
    from concurrent.futures import ThreadPoolExecutor
    thorough = tier == "thorough"
    mains = THOROUGH_MC if thorough else QUICK_MC
    n = 600 if thorough else 110
    gens = [("P2PSenderGen", "P2PSenderGen.cfg", dict(simulate="num=%d" % n, depth=300, seed=seed, workers=1)),
            ("P2PSenderGen", "P2PSenderGen_short.cfg", dict(simulate="num=%d" % n, depth=300, seed=seed + 1000, workers=1))]
    controls, fine_bad, fine_ok = CONTROLS, FINE_BAD, FINE_OK
    rmains, rcontrols = (RELAY_THOROUGH if thorough else RELAY_QUICK), RELAY_CONTROLS
    if not thorough:      # quick tier: one control per invariant (every JVM start counts)
        seen_inv = set()
        controls = [c for c in CONTROLS if not (c[1] in seen_inv or seen_inv.add(c[1]))]
        seen_inv = set()
        rcontrols = [c for c in RELAY_CONTROLS if not (c[1] in seen_inv or seen_inv.add(c[1]))]
        fine_bad, fine_ok = FINE_BAD[:1], FINE_OK[:1]
    if os.environ.get("VERIF_P2PSENDER_NOMC"):      # mutation experiments: the design check does not depend on the tree
        mains, controls, fine_bad, fine_ok, rmains, rcontrols = [], [], [], [], [], []
    jobs = list(gens)
    jobs += [("P2PSenderMC", c, dict(workers=WORKERS or (4 if thorough else 2))) for c in mains]
    jobs += [("RelayLoopMC", c, dict(workers=WORKERS or 2)) for c in rmains]
    jobs += [("P2PSenderMC", c, dict(workers=1)) for c, _, _ in controls]
    jobs += [("RelayLoopMC", c, dict(workers=1)) for c, _, _ in rcontrols]
    jobs += [("AddResultFine", c, dict(workers=1)) for c, _, _ in fine_bad]
    jobs += [("AddResultFine", c, dict(workers=1)) for c in fine_ok]
    dirs = [vlib.scratch(o.pid, FAMILY) for _ in jobs]
    ex = ThreadPoolExecutor(max_workers=min(len(jobs), 12 if thorough else 10))
    futs = [ex.submit(vlib.tlc, o.pid, FAMILY, j[0], j[1], timeout=1700, sdir=d, **j[2]) for j, d in zip(jobs, dirs)]
    hists, seen = [], set()
    for f in futs[:len(gens)]:
        g = f.result()
        if g.error or g.timed_out or (g.violation and g.violation != "deadlock"):
            raise vlib.Infra("schedule generation failed: %s\n%s" % (g.summary(), g.out[-2000:]))
        for p in vlib.tagged_prints(g, "SCHED"):
            if p not in seen:
                seen.add(p)
                hists.append(json.loads(p))
    if not hists:
        raise vlib.Infra("schedule generation: no histories")

    def join():
        res = [f.result() for f in futs[len(gens):]]
        ex.shutdown()
        k = 0
        for cfg in list(mains) + list(rmains):
            vlib.require_mc_ok(res[k], cfg)
            o.add_mc("P2PSender/" + cfg[:-4], res[k])
            k += 1
        for cfg, inv, what in list(controls) + list(rcontrols) + list(fine_bad):
            r = res[k]
            k += 1
            got = r.violation
            if "Temporal property AlwaysAnswered was violated" in r.out or "Temporal properties were violated" in r.out:
                got = "temporal"
            if got != inv:
                raise vlib.Infra("design-spec control failed: '%s' not caught by %s: %s" % (what, inv, r.summary()))
            o.selftests.append({"control": "P2PSender spec variant '%s' violates %s" % (what, inv), "rejected_as_required": True})
        for cfg in fine_ok:
            vlib.require_mc_ok(res[k], cfg)
            o.add_mc("P2PSender/" + cfg[:-4], res[k])
            k += 1
    return hists, join


def race_probe(o, seconds):
    """Sender.addResult under concurrent results for one peer, on the REAL code: a panic ('index out of range') within the
    time box reproduces the finding on this tree; no panic is no verdict."""
    rc, out, wall = vlib.go_exec(PKG, "TestAddResultRace", {"VERIF_RACE_SECONDS": seconds}, timeout=seconds + 240)
    if "index out of range" in out and "addResult" in out:
        o.known.append((FINDING, "Sender.addResult panics under concurrent results for one peer (index out of range in the loop over the "
                                 "buffer; reproduced by harness/p2psender TestAddResultRace after %.1f s; the interleaving is the "
                                 "counter-example of AddResultFine_ascoded_panic.cfg)" % wall))
        o.extra["addresult_race_reproduced"] = True
    elif rc != 0:
        raise vlib.Infra("race probe failed for another reason (rc=%s):\n%s" % (rc, out[-3000:]))
    else:
        o.extra["addresult_race_reproduced"] = False


def stage(o, tier, seed):
    """Run the P2PSender family as a stage of a check."""
    t0 = time.time()
    thorough = tier == "thorough"
    hists, join_design = design_check(o, tier, seed)
    r = vlib.rng(seed, "p2psender-gen")
    r.shuffle(hists)
    hists = hists[:2500 if thorough else 240]
    gen = [from_hist(h) for h in hists]
    rnd = random_schedules(seed, 2000 if thorough else 180, 800 if thorough else 90, 600 if thorough else 50, thorough)
    o.extra["p2psender_histories_by_tlc"] = len(gen)
    if os.environ.get("VERIF_P2PSENDER_ONLY") == "relay":      # mutation experiments on relay.go / expbackoff
        gen, rnd = gen[:5], rnd[:5]
    vlib.conformance(o, FAMILY, TRACE, TCFG, PKG, gen, tag="p2pgen", chunk=120, exec_timeout=900, tv_timeout=900)
    vlib.conformance(o, FAMILY, TRACE, TCFG, PKG, rnd, tag="p2prnd", chunk=120, exec_timeout=900, tv_timeout=900)
    rel = relay_schedules(seed, 700 if thorough else 90)
    vlib.conformance(o, FAMILY, "RelayLoopTrace", "RelayLoopTrace.cfg", PKG, rel, test="TestRelay", tag="p2prelay", chunk=60,
                     exec_timeout=900, tv_timeout=900)
    if not os.environ.get("VERIF_P2PSENDER_NOPROBE"):
        race_probe(o, 20 if thorough else 4)
    join_design()
    tr = []
    for tag in ("p2pgen", "p2prnd"):
        tr += vlib.split_traces(vlib.read_ndjson(os.path.join(vlib.workdir(o.pid), "trace_%s.ndjson" % tag)))
    if not o.violations and not os.environ.get("VERIF_P2PSENDER_ONLY"):
        ms = mutators()
        nself = len(o.selftests)
        vlib.binding_selftest(o, FAMILY, TRACE, TCFG, tr, ms)
        if len(o.selftests) - nself < len(ms):
            raise vlib.Infra("P2PSender binding self-test: some negative control found no applicable trace")
        rtr = vlib.split_traces(vlib.read_ndjson(os.path.join(vlib.workdir(o.pid), "trace_p2prelay.ndjson")))
        rms = relay_mutators()
        nself = len(o.selftests)
        vlib.binding_selftest(o, FAMILY, "RelayLoopTrace", "RelayLoopTrace.cfg", rtr, rms)
        if len(o.selftests) - nself < len(rms):
            raise vlib.Infra("RelayLoop binding self-test: some negative control found no applicable trace")
        rev = [e for t in rtr for e in t]
        o.extra["relay_reservations_requested"] = sum(1 for e in rev if e["ev"] == "Resv")
        o.extra["relay_failures"] = sum(1 for e in rev if e["ev"] == "RWarn")
        o.extra["relay_refreshes"] = sum(1 for e in rev if e["ev"] == "RRefresh")
        o.extra["relay_route_samples"] = sum(1 for e in rev if e["ev"] == "Route")
    ev = [e for t in tr for e in t]
    cnt = lambda p: sum(1 for e in ev if p(e))
    o.extra["p2p_calls"] = cnt(lambda e: e["ev"] == "Call")
    o.extra["p2p_attempts"] = cnt(lambda e: e["ev"] == "NS")
    o.extra["p2p_retries"] = cnt(lambda e: e["ev"] == "NS" and e["a"] == 2)
    o.extra["p2p_handler_invocations"] = cnt(lambda e: e["ev"] == "HStart")
    o.extra["p2p_warnings"] = cnt(lambda e: e["ev"] == "Log" and e["kind"] == "sendfail")
    o.extra["p2p_recoveries"] = cnt(lambda e: e["ev"] == "Log" and e["kind"] == "recovered")
    o.extra["p2p_gate_queries"] = cnt(lambda e: e["ev"] == "Gate")
    o.extra["p2p_gate_rejections"] = cnt(lambda e: e["ev"] == "Gate" and not e["res"])
    log("[%s] P2PSender stage: %d TLC histories + %d random schedules -> %d traces, %d calls, %d attempts (%d retries), %d handler "
        "invocations, %d warnings / %d recoveries, %d gater queries, %.0fs"
        % (o.pid, len(gen), len(rnd), len(tr), o.extra["p2p_calls"], o.extra["p2p_attempts"], o.extra["p2p_retries"],
           o.extra["p2p_handler_invocations"], o.extra["p2p_warnings"], o.extra["p2p_recoveries"], o.extra["p2p_gate_queries"], time.time() - t0))


def main(tier="quick", seed=1, pid="GP2PSENDER"):
    """Stand-alone driver (the evidence file is written by checks/grow_all.py when the family is registered)."""
    vlib.workdir(pid, fresh=True)
    o = vlib.Outcome(pid, tier, seed)
    try:
        stage(o, tier, int(seed))
    except vlib.Infra as e:
        log("INFRA: %s" % e)
        return 2
    for fid, txt in o.known:
        log("KNOWN-FINDING: property=%s %s: %s" % (pid, fid, txt))
    for path, txt in o.violations:
        log("VIOLATION property=%s replay=%s" % (pid, path))
        log("  " + txt)
    if o.violations:
        return 1
    log("[%s] OK tier=%s seed=%s: %d MC states, %d traces validated, %d self-test controls, %.0fs"
        % (pid, tier, seed, o.states, o.traces, len(o.selftests), time.time() - o.t0))
    return 0


def replay(path):
    rp = json.load(open(path))
    o = vlib.Outcome(rp.get("property", "GP2PSENDER"), "quick", 0)
    vlib.conformance(o, FAMILY, rp["trace_module"], rp["trace_cfg"], rp["pkg"], [rp["schedule"]], test=rp.get("test", "TestExec"), tag="replay")
    for p, t in o.violations:
        log("replay: " + t)
    return 1 if o.violations else 0


if __name__ == "__main__":
    import sys
    sys.exit(main(*(sys.argv[1:3] or ["quick", 1])))
