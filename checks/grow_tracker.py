"""GROWTH family Tracker - the duty tracker (core/tracker/tracker.go, reason.go): one event per workflow component, duty and
validator; at the duty's deadline: which step failed and why (analyseDutyFailed / the reason table, incl. the dependency on
earlier duties of the slot), peer participation, unexpected and inconsistent partial signatures.

Oracle: specs/Tracker (Tracker.tla = event-order state machine + the attribution FUNCTION transcribed as a table;
TrackerMC = case analysis of the table + state machine; TrackerTrace = trace validation).  Executor: harness/tracker (the
real tracker.New + Run, scripted deadliners, observation through the prometheus counters and the "Duty failed" log record).

Use from another check:   import grow_tracker; grow_tracker.stage(o, tier, seed)
Stand-alone:              python3 checks/grow_tracker.py [quick|thorough] [seed]
"""
import json, os, sys
sys.path[:0] = [os.path.join(os.path.dirname(os.path.dirname(os.path.abspath(__file__))), "tools")]
from concurrent.futures import ThreadPoolExecutor
import vlib
from vlib import log

FAMILY = "Tracker"
PKG = "tracker"
FINDING = "GROW-TRACKER-bnerr-pointer"
DEV_CFGS = [(FINDING, "TrackerTrace_dev_bnptr.cfg")]

STEPS = ["fetcher", "consensus", "duty_db", "parsig_db_local", "parsig_ex", "parsig_db_external", "sig_aggregation", "aggsig_db",
         "bcast", "chain_inclusion"]
PARSIG = {"parsig_db_local", "parsig_ex", "parsig_db_external"}
ERRS = ["bnptr", "bnval", "cancel", "deadline", "other"]
FAMILIES = [["proposer", "randao"], ["aggregator", "prepare_aggregator", "attester"],
            ["sync_contribution", "prepare_sync_contribution", "sync_message"],
            ["attester", "proposer", "randao", "exit"], ["attester"], ["sync_message", "sync_contribution"],
            ["aggregator", "prepare_aggregator", "attester", "sync_contribution", "prepare_sync_contribution", "sync_message",
             "proposer", "randao"]]

MC_QUICK = ["TrackerMC_tbl_prop.cfg", "TrackerMC_tbl_agg_q.cfg", "TrackerMC_tbl_sync_q.cfg", "TrackerMC_tbl_att.cfg",
            "TrackerMC_sm_quick.cfg"]
MC_THOROUGH = ["TrackerMC_tbl_prop.cfg", "TrackerMC_tbl_agg.cfg", "TrackerMC_tbl_agg_incl.cfg", "TrackerMC_tbl_sync.cfg",
               "TrackerMC_tbl_att.cfg", "TrackerMC_tbl_randao.cfg", "TrackerMC_tbl_syncmsg.cfg", "TrackerMC_sm.cfg"]
CONTROLS = [("TrackerMC_ctl_firstevent.cfg", ("StuckStep", "SuccessIffFinal", "Dependency"),
             "the FIRST instead of the last event of the furthest step decides"),
            ("TrackerMC_ctl_countdups.cfg", ("Participation",), "participation counts duplicate partial signatures"),
            ("TrackerMC_ctl_acceptlate.cfg", ("MCLateDropped",), "events are recorded after the analysis deadline")]


def duty(slot, typ):
    return {"slot": slot, "type": typ}


def call(step, d, pks, err="nil", share=0, root=""):
    if step in PARSIG and share == 0:
        share, root = 1, "x"
    return {"ev": "Call", "step": step, "d": d, "pks": sorted(pks), "err": err, "share": share if step in PARSIG else 0,
            "root": root if step in PARSIG else ""}


def random_schedules(seed, count, big):
    """Node-level scenarios: for every duty of a dependency family in one or two slots the workflow runs up to a random
    step (missing steps, an error of a random kind at the last one, duplicates, partial signatures from several shares
    with now and then a second message root, validators that were never scheduled), the deadlines pass in a random order
    interleaved with the calls, late events arrive after the deadline and after the deletion."""
    r = vlib.rng(seed, "grow_tracker")
    out = []
    for _ in range(count):
        n = r.choice([1, 3, 3, 4])
        incl = r.random() < 0.4
        from_slot = r.choice([0, 0, 0, 2])
        fam = r.choice(FAMILIES)
        slots = [1] if r.random() < 0.6 else [1, 2]
        cfg = {"ev": "Config", "n": n, "from": from_slot, "incl": incl, "exempt": r.choice([[], ["exit"], ["exit", "builder_registration"]])}
        pks_all = ["a", "b"] if r.random() < 0.7 else ["a"]
        flows = []     # per duty: list of steps (in order)
        for s in slots:
            for t in fam:
                d = duty(s, t)
                if r.random() < 0.12:
                    continue               # the duty never shows up (zero events: the prerequisite "zero" reasons)
                last = "chain_inclusion" if (t == "proposer" or (incl and t in ("attester", "aggregator"))) else "bcast"
                reach = r.choice(STEPS[:STEPS.index(last) + 1] + [last] * 4)
                kind = r.choice(["stuck", "stuck", "error", "error", "complete"])
                if kind == "complete":
                    reach = last
                pks = pks_all if r.random() < 0.8 else [r.choice(pks_all)]
                steps = []
                for st in STEPS[:STEPS.index(reach) + 1]:
                    if st != reach and r.random() < 0.08:
                        continue           # a missing event
                    err = "nil"
                    if st == reach and kind == "error":
                        err = r.choice(ERRS)
                    if st in PARSIG:
                        if st == "parsig_db_external":
                            shares = r.sample(range(2, n + 1), r.randint(0, n - 1)) if n > 1 else []
                            if st == reach and not shares and n > 1:
                                shares = [2]
                        else:
                            shares = [1]
                        for sh in shares:
                            root = "y" if r.random() < 0.12 else "x"
                            who = pks if r.random() < 0.85 else [r.choice(["a", "b", "c"])]
                            steps.append(call(st, d, who, err, sh, root))
                            if r.random() < 0.1:
                                steps.append(call(st, d, who, r.choice(["nil", err]), sh, r.choice(["x", "y"])))
                    else:
                        steps.append(call(st, d, pks, err))
                        if r.random() < 0.08:
                            steps.append(call(st, d, pks, r.choice(["nil"] + ERRS)))
                if t in ("aggregator", "sync_contribution") and r.random() < 0.3:
                    steps = [call("fetcher", d, pks, "nil")]      # nothing to aggregate in this slot
                if r.random() < 0.1 and steps:
                    i, j = r.randrange(len(steps)), r.randrange(len(steps))
                    steps[i], steps[j] = steps[j], steps[i]       # out of order
                flows.append((d, steps))
        # interleave the flows; a duty's deadline passes somewhere after (sometimes inside) its flow; deletions follow
        sched = [cfg]
        pend = [(d, list(st)) for d, st in flows]
        dead, deleted = [], []
        order = [d for d, _ in flows]
        r.shuffle(order)
        while pend:
            k = r.randrange(len(pend))
            d, st = pend[k]
            if st:
                sched.append(st.pop(0))
                if r.random() < 0.04 and d not in dead:
                    sched.append({"ev": "Deadline", "d": d})     # an early deadline: the rest arrives late
                    dead.append(d)
            else:
                pend.pop(k)
        for d in order:
            if r.random() < 0.1:
                continue
            if d not in dead:
                sched.append({"ev": "Deadline", "d": d})
                dead.append(d)
            if r.random() < 0.25:
                sched.append(call(r.choice(STEPS[:9]), d, ["a"], r.choice(["nil"] + ERRS), 2, "x"))    # late event
            if r.random() < 0.3 and dead:
                x = r.choice(dead)
                if x not in deleted:
                    sched.append({"ev": "Delete", "d": x})
                    deleted.append(x)
                    if r.random() < 0.5:
                        sched.append(call("bcast", x, ["a"]))     # after deletion
            if r.random() < 0.05:
                sched.append({"ev": "Deadline", "d": d})          # the deadliner never emits twice; asking again is harmless
        out.append(sched)
    return out


def directed_schedules():
    """Corners of the reason table that random choice reaches rarely."""
    cfg = {"ev": "Config", "n": 3, "from": 0, "incl": False, "exempt": ["exit"]}
    out = []
    pre = {"proposer": "randao", "aggregator": "prepare_aggregator", "sync_contribution": "prepare_sync_contribution"}
    for main, dep in pre.items():
        for depstate in ("none", "parsig_ex", "parsig_db_external", "sig_aggregation", "done", "done_then_deleted"):
            for err in ("cancel", "bnptr", "bnval", "nil"):
                s = [cfg]
                d, p = duty(1, main), duty(1, dep)
                if depstate not in ("none",):
                    upto = "bcast" if depstate.startswith("done") else depstate
                    for st in STEPS[:STEPS.index(upto) + 1]:
                        s.append(call(st, p, ["a"], "nil", 2 if st == "parsig_db_external" else 1, "x"))
                if depstate == "done_then_deleted":
                    s += [{"ev": "Deadline", "d": p}, {"ev": "Delete", "d": p}]
                s.append(call("fetcher", d, ["a"], err))
                s.append({"ev": "Deadline", "d": d})
                s.append({"ev": "Deadline", "d": p})
                out.append(s)
    # second prerequisite (attestation data / sync message) stuck at every step, with and without an error, the first one complete
    for main, dep, second in (("aggregator", "prepare_aggregator", "attester"),
                              ("sync_contribution", "prepare_sync_contribution", "sync_message")):
        for upto in STEPS[:9]:
            for lasterr in ("nil", "other"):
                d, p, q = duty(1, main), duty(1, dep), duty(1, second)
                s = [cfg] + [call(st, p, ["a"], "nil", 2 if st == "parsig_db_external" else 1, "x") for st in STEPS[:9]]
                flow = STEPS[:STEPS.index(upto) + 1]
                s += [call(st, q, ["a"], lasterr if st == upto else "nil", 2 if st == "parsig_db_external" else 1, "x") for st in flow]
                s += [call("fetcher", d, ["a"], "deadline"), {"ev": "Deadline", "d": d}]
                out.append(s)
    # the unsupported-ignorer: zero selections are ignored until an aggregation duty went through once
    for main, dep in (("aggregator", "prepare_aggregator"), ("sync_contribution", "prepare_sync_contribution")):
        s = [cfg]
        s += [call("fetcher", duty(1, main), ["a"], "cancel"), {"ev": "Deadline", "d": duty(1, main)}]
        s += [call("fetcher", duty(2, main), ["a"], "nil"), {"ev": "Deadline", "d": duty(2, main)}]
        s += [call("fetcher", duty(3, main), ["a"], "cancel"), {"ev": "Deadline", "d": duty(3, main)}]
        out.append(s)
    # inconsistent roots: attester (bug) / sync message (expected, cohorts) / sync contribution
    for t in ("attester", "sync_message", "sync_contribution"):
        for roots in (("x", "y", "y"), ("y", "x", "x"), ("x", "y", "x")):
            d = duty(1, t)
            s = [cfg, call("fetcher", duty(1, "sync_contribution" if t != "attester" else t), ["a", "b"])]
            s.append(call("parsig_db_local", d, ["a", "b"], "nil", 1, roots[0]))
            s.append(call("parsig_db_external", d, ["a"], "nil", 2, roots[1]))
            s.append(call("parsig_db_external", d, ["a", "b"], "nil", 3, roots[2]))
            s.append(call("parsig_db_external", d, ["b"], "nil", 2, roots[2]))
            s.append({"ev": "Deadline", "d": d})
            out.append(s)
    # attester with chain inclusion tracking: broadcast alone is not the end
    ci = dict(cfg, incl=True)
    d = duty(1, "attester")
    flow = [call(st, d, ["a", "b"], "nil", 1, "x") for st in STEPS[:9]]
    out.append([ci] + flow + [{"ev": "Deadline", "d": d}])
    out.append([ci] + flow + [call("chain_inclusion", d, ["a", "b"]), {"ev": "Deadline", "d": d}])
    out.append([ci] + flow + [call("chain_inclusion", d, ["a", "b"], "other"), {"ev": "Deadline", "d": d}])
    out.append([cfg] + flow + [{"ev": "Deadline", "d": d}, {"ev": "Deadline", "d": d}, {"ev": "Delete", "d": d}, {"ev": "Delete", "d": d}])
    return out


NODEP = ("proposer", "aggregator", "sync_contribution")


def triggers(s):
    return any(e.get("ev") == "Call" and e["step"] == "fetcher" and e["err"] == "bnptr" and e["d"]["type"] not in NODEP for e in s)


def mutators():
    def first_obs(t, pred):
        for e in t:
            for rec in e.get("obs") or []:
                if pred(rec):
                    return e, rec
        return None, None

    def reason_replaced(t):
        e, rec = first_obs(t, lambda x: x["m"] == "log_failed")
        if rec is None:
            return None
        rec["r"] = "no_consensus" if rec["r"] != "no_consensus" else "unknown"
        return t

    def step_replaced(t):
        e, rec = first_obs(t, lambda x: x["m"] == "log_failed" and x["s"] != "bcast")
        if rec is None:
            return None
        rec["s"] = "bcast"
        return t

    def failure_reported_as_success(t):
        for e in t:
            ob = e.get("obs") or []
            if any(x["m"] == "failed_duties_total" for x in ob):
                e["obs"] = [x for x in ob if x["m"] not in ("failed_duties_total", "failed_duty_reasons_total", "log_failed")]
                typ = [x["t"] for x in ob if x["m"] == "failed_duties_total"][0]
                e["obs"].append({"m": "success_duties_total", "t": typ, "p": 0, "r": "", "s": "", "e": "", "v": 1})
                return t
        return None

    def participation_twice(t):
        e, rec = first_obs(t, lambda x: x["m"] == "participation_success_total")
        if rec is None:
            return None
        rec["v"] += 1
        return t

    def analysed_twice(t):
        e, rec = first_obs(t, lambda x: x["m"] == "expect_duties_total")
        if rec is None:
            return None
        rec["v"] = 2
        return t

    def report_at_call(t):
        src, _ = first_obs(t, lambda x: x["m"] == "expect_duties_total")
        if src is None:
            return None
        for e in t:
            if e.get("ev") == "Call":
                e["obs"] = src["obs"]
                return t[:t.index(e) + 1]
        return None

    def deadline_not_fired(t):
        for i, e in enumerate(t):
            if e.get("ev") == "Deadline" and e.get("fired") and e.get("obs"):
                t[i]["fired"] = False
                return t
        return None

    def late_event_recorded(t):
        # a late event is turned into a timely one: the call is moved in front of its duty's deadline, the analysis stays as logged
        for i, e in enumerate(t):
            if e.get("ev") == "Deadline" and e.get("fired") and any(x["m"] == "log_failed" for x in e["obs"]):
                for j in range(i + 1, len(t)):
                    f = t[j]
                    if f.get("ev") == "Call" and f["d"] == e["d"] and f["step"] == "bcast" and f["err"] == "nil":
                        t.insert(i, t.pop(j))
                        return t
        return None
    return [("failure reason replaced", reason_replaced), ("failed step replaced", step_replaced),
            ("failed duty reported as success", failure_reported_as_success), ("a share counted twice", participation_twice),
            ("duty analysed twice", analysed_twice), ("report while an event is recorded", report_at_call),
            ("deadline reported as not fired", deadline_not_fired),
            ("late event moved before the deadline", late_event_recorded)]


def _mc_start(o, thorough):
    """Start the design check (case analysis of the reason table + state machine) and the controls in the background: they
    do not depend on the implementation.  Scratch directories are created up front (vlib.scratch is not thread safe)."""
    if os.environ.get("VERIF_SKIP_MC"):
        o.notes.append("Tracker design check skipped (VERIF_SKIP_MC)")
        return None
    cfgs = MC_THOROUGH if thorough else MC_QUICK
    jobs = [(cfg, vlib.scratch(o.pid, FAMILY)) for cfg in cfgs + [c for c, _, _ in CONTROLS]]
    workers = max(2, vlib.NCPU // (4 if thorough else 8))
    ex = ThreadPoolExecutor(max_workers=len(jobs))
    futs = [ex.submit(vlib.tlc, o.pid, FAMILY, "TrackerMC", cfg, workers=workers, timeout=1700, sdir=d) for cfg, d in jobs]
    return cfgs, futs, ex


def _mc_finish(o, started):
    if started is None:
        return
    cfgs, futs, ex = started
    res = [f.result() for f in futs]
    ex.shutdown()
    for cfg, r in zip(cfgs, res):
        vlib.require_mc_ok(r, "Tracker/" + cfg)
        o.add_mc("Tracker/" + cfg[:-4], r)
    for (cfg, invs, what), r in zip(CONTROLS, res[len(cfgs):]):
        if r.violation not in invs:
            raise vlib.Infra("Tracker design-spec control failed: '%s' not caught (%s): %s" % (what, "/".join(invs), r.summary()))
        o.selftests.append({"control": "Tracker spec variant '%s' violates %s" % (what, r.violation), "rejected_as_required": True})


def stage(o, tier, seed):
    thorough = tier == "thorough"
    n0 = len(o.selftests)
    mc = _mc_start(o, thorough)
    try:
        _conformance(o, thorough, seed)
    finally:
        if mc is not None and o.violations:
            for f in mc[1]:
                f.cancel()
    _mc_finish(o, mc)
    return len(o.selftests) - n0


def _conformance(o, thorough, seed):
    # stage 1: schedules (TLC simulation runs in the background while the probe below is executed)
    bg = ThreadPoolExecutor(max_workers=1)
    genf = bg.submit(vlib.gen_schedules, o.pid, FAMILY, "TrackerGen", "TrackerGen.cfg", num=300 if thorough else 20, depth=45,
                     seed=seed, limit=None)
    rnd = random_schedules(seed, 5000 if thorough else 250, thorough)
    # stage 2+3
    # The known finding (a *api.Error is not recognised as beacon-node error) shows up in every schedule in which a fetch of a
    # duty without prerequisite fails with that error kind.  One directed probe goes through the regular known-finding path
    # (re-execution, deviation configuration); if it shows the finding, the other schedules that carry the trigger are
    # validated against the as-coded table (deviation switched on), otherwise against the contract like everything else.
    kw = dict(chunk=150)
    probes = [[{"ev": "Config", "n": 3, "from": 0, "incl": False, "exempt": []}, call("fetcher", duty(1, t), ["a"], "bnptr"),
               {"ev": "Deadline", "d": duty(1, t)}] for t in ("attester",)]
    vlib.conformance(o, FAMILY, "TrackerTrace", "TrackerTrace.cfg", PKG, probes, tag="trk_probe", dev_cfgs=DEV_CFGS, **kw)
    as_coded = any(fid == FINDING for fid, _ in o.known)
    gen, _ = genf.result()
    bg.shutdown()
    rr = vlib.rng(seed, "grow_tracker/gen")
    rr.shuffle(gen)
    gen = gen[:4000 if thorough else 150]
    cfgs = {False: ("TrackerTrace.cfg", open(os.path.join(vlib.SPECS, FAMILY, "TrackerTrace.cfg")).read()),
            True: ("TrackerTrace_dev_bnptr.cfg", open(os.path.join(vlib.SPECS, FAMILY, "TrackerTrace_dev_bnptr.cfg")).read())}
    vlib.conformance(o, FAMILY, "TrackerTrace", lambda t: cfgs[as_coded and triggers(t)], PKG, directed_schedules() + gen + rnd,
                     tag="trk_main", **kw)
    # binding negative controls on recorded traces
    tr = vlib.split_traces(vlib.read_ndjson(vlib.workdir(o.pid) + "/trace_trk_main.ndjson"))
    muts = mutators()
    good = [t for t in tr[len(directed_schedules()):] if not triggers(t)][:200]
    before = len(o.selftests)
    vlib.binding_selftest(o, FAMILY, "TrackerTrace", "TrackerTrace.cfg", good, muts)
    if len(o.selftests) - before < len(muts) and not o.violations:
        raise vlib.Infra("Tracker binding self-test: some negative control found no applicable trace")
    # vacuity: the runs must have seen failures, successes and participation
    seen = {"failed": 0, "success": 0, "part": 0, "reasons": set()}
    for tag in ("trk_main",):
        for t in vlib.split_traces(vlib.read_ndjson(vlib.workdir(o.pid) + "/trace_%s.ndjson" % tag)):
            for e in t:
                for rec in e.get("obs") or []:
                    if rec["m"] == "log_failed":
                        seen["failed"] += 1
                        seen["reasons"].add(rec["r"])
                    elif rec["m"] == "success_duties_total":
                        seen["success"] += 1
                    elif rec["m"] == "participation_success_total":
                        seen["part"] += 1
    o.extra["tracker_reports_observed"] = {"failed": seen["failed"], "success": seen["success"], "participation": seen["part"],
                                           "distinct_reasons": sorted(seen["reasons"])}
    if (seen["failed"] < 50 or seen["success"] < 10 or seen["part"] < 50 or len(seen["reasons"]) < 20) and not o.violations:
        raise vlib.Infra("vacuous Tracker run: %s" % seen)


RULE = ("Tracker: schedules = configuration (peers, fromSlot, chain-inclusion tracking, exempt types) + Call(step, duty, validators, "
        "error kind, share, root) / Deadline(duty) / Delete(duty); generated by TLC simulation of TrackerGen, a seeded random "
        "generator of node-level scenarios and directed corners of the reason table; executed on the real tracker.New/Run")
ASSUMPTIONS = ["Tracker: the two deadliners are scripted and follow the core.Deadliner contract (C16); the tracker's reports are "
               "observed through the counters of package core/tracker and the 'Duty failed' log record (no hook)",
               "Tracker: error kinds: *api.Error (what go-eth2-client returns), api.Error value, context.Canceled, "
               "context.DeadlineExceeded, other; known finding " + FINDING + ": the pointer form is not recognised as beacon-node error"]


def main(tier="quick", seed=1):
    o = vlib.Outcome("GROWT", tier, seed)
    vlib.workdir(o.pid, fresh=True)
    stage(o, tier, seed)
    return vlib.finish(o, "model_checking", RULE, ASSUMPTIONS)


if __name__ == "__main__":
    try:
        sys.exit(main(sys.argv[1] if len(sys.argv) > 1 else "quick", int(sys.argv[2]) if len(sys.argv) > 2 else 1))
    except vlib.Infra as e:
        print("INFRA-ERROR: %s" % e)
        sys.exit(2)
