#!/bin/bash
# usage: checks/grow_muttest.sh <grow_priority|grow_broadcaster> -e '<sed -E expr>' <file in repo>   |   ... <patch.diff>
# Applies one mutation in a scratch worktree of /repo and runs the family's stand-alone quick stage against it.
set -u
MOD=$1; shift
WT=/tmp/growmut_$$
git -C /repo worktree add -q --detach $WT HEAD || exit 3
if [ "$1" = "-e" ]; then
  sed -i -E "$2" $WT/$3 || echo "sed failed"
else
  (cd $WT && git apply "$1") || { echo "patch failed"; git -C /repo worktree remove --force $WT; exit 3; }
fi
if [ -z "$(cd $WT && git status --short)" ]; then echo "MUTATION DID NOT APPLY"; git -C /repo worktree remove --force $WT; exit 3; fi
(cd $WT && git diff | grep '^[+-][^+-]' | head -6)
(cd $WT && GOFLAGS=-mod=mod GOPROXY=off go build ./core/... 2>&1 | head -5)
VERIF_WORK=/verif/.work/growmut_$$ VERIF_REPO=$WT ${MUT_ONLY:+GROW_ONLY=$MUT_ONLY} timeout 1500 python3 -c "import sys; sys.path[:0]=['/verif/tools','/verif/checks']; import $MOD as g; sys.exit(g.main('quick', 1))" 2>&1 \
  | grep -E "VIOLATION|KNOWN-FINDING|INFRA|OK tier|^  " | cut -c1-330 | head -8
echo "exit=${PIPESTATUS[0]}"
git -C /repo worktree remove --force $WT
rm -rf /verif/.work/growmut_$$
