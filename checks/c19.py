"""C19 - beacon API calls through the multi client succeed whenever one configured primary answers
(app/eth2wrap/eth2wrap.go provide/submit, app/eth2wrap/multi.go, app/forkjoin/forkjoin.go)."""
import itertools
import vlib
from vlib import log

FAMILY = "MultiClient"
RULE = ("schedules = configuration (P primaries, B fallbacks, call style att/sync/submit, outcome per node: ok, "
        "unsuccessful output, 16 error variants of the unavailability classes timeout/syncing/gateway/unreachable, 5 other "
        "errors, hang; per node: honours / ignores its request context) + Call / NodeDone(i) in every completion order "
        "(a stuck node released late or only at the end of the schedule) / CancelCaller(cancel|deadline) anywhere; "
        "generated (a) by TLC simulation of MultiClientGen, (b) by enumeration of all outcome-class vectors for P<=3,B<=2 "
        "with seeded completion orders, and again with every choice of 1-2 context-ignoring nodes, (c) by a seeded random "
        "generator (P<=6, B<=3, mixed classes, late successes, hung nodes, stuck nodes in the primary / fallback stage, "
        "cancellation); executed on eth2wrap.NewMultiForT over gated nodes inside a testing/synctest bubble (virtual "
        "clock, the Return carries its virtual time); distinct = distinct recorded traces")

VARIANTS = {
    "ok": ["ok"], "nok": ["nok"], "hang": ["hang"],
    "unavail": ["timeout", "clienttimeout", "notactive", "syncing503", "syncing500", "optimistic", "e502", "e503", "e504",
                "refused", "reset", "unreach", "dns"],
    "other": ["e400", "e404", "e429", "e500", "plain"],
}


def classes_of(style):
    return ["ok", "nok", "unavail", "other", "hang"] if style == "sync" else ["ok", "unavail", "other", "hang"]


def concretise(r, sched):
    """TLC-generated schedules carry outcome classes: pick a concrete variant per node."""
    cfg = dict(sched[0])
    cfg["out"] = [r.choice(VARIANTS[c]) for c in cfg["out"]]
    return [cfg] + list(sched[1:])


def as_coded(P, B, cls, order_p, order_f, cancel_at, how, pre_cancel, keep_stuck=()):
    """Steps for one scenario; the driver skips releases of nodes that were not consulted, so no knowledge of the
    implementation's fallback decision is needed here.  keep_stuck: nodes (deaf ones) that are not released before the
    end of the schedule."""
    steps = []
    if pre_cancel:
        steps.append({"ev": "CancelCaller", "how": how})
    steps.append({"ev": "Call"})
    rel = [{"ev": "NodeDone", "i": i} for i in order_p if cls[i - 1] != "hang" and i not in keep_stuck]
    rel += [{"ev": "NodeDone", "i": i} for i in order_f if cls[i - 1] != "hang" and i not in keep_stuck]
    if cancel_at is not None and not pre_cancel:
        rel.insert(min(cancel_at, len(rel)), {"ev": "CancelCaller", "how": how})
    return steps + rel


def enumerated(seed, thorough):
    r = vlib.rng(seed, "c19enum")
    out = []
    for P in (1, 2, 3):
        for B in (0, 1, 2):
            for style in ("att", "sync", "submit"):
                cs = classes_of(style)
                for cls in itertools.product(cs, repeat=P + B):
                    if not thorough and r.random() > (1.0 if P + B <= 3 else 0.12):
                        continue
                    prim = list(range(1, P + 1))
                    fall = list(range(P + 1, P + B + 1))
                    orders = list(itertools.permutations(prim)) if (thorough or P + B <= 3) else [tuple(r.sample(prim, P))]
                    for op in orders:
                        of = r.sample(fall, B)
                        out.append([{"ev": "Cfg", "P": P, "B": B, "style": style,
                                     "out": [r.choice(VARIANTS[c]) for c in cls]}]
                                   + as_coded(P, B, cls, op, of, None, "cancel", False))
    return out


def stuck_order(r, ids, deaf):
    """Completion order in which the nodes that ignore their context answer late (after the others of their stage)
    most of the time; returns (order, nodes never released)."""
    ids = list(ids)
    r.shuffle(ids)
    d = [i for i in ids if deaf[i - 1]]
    mode = r.choice(["last", "last", "never", "never", "free"])
    if mode == "free":
        return ids, ()
    rest = [i for i in ids if not deaf[i - 1]]
    if mode == "last":
        return rest + d, ()
    keep = set(d if r.random() < 0.6 else r.sample(d, r.randint(0, len(d))))
    return rest + [i for i in d if i not in keep], keep


def enumerated_stuck(seed, thorough):
    """Every outcome-class vector for P+B <= 3 (thorough: P<=3, B<=2) x every choice of one or two nodes that ignore
    their request context; the stuck nodes answer last, never (released at the end of the schedule) or anywhere;
    every third scenario has the caller cancel somewhere."""
    r = vlib.rng(seed, "c19stuck")
    out = []
    for P in (1, 2, 3):
        for B in (0, 1, 2):
            n = P + B
            if n > 3 and not thorough:
                continue
            for style in ("att", "sync", "submit"):
                cs = classes_of(style)
                for cls in itertools.product(cs, repeat=n):
                    for k in (1, 2):
                        for dset in itertools.combinations(range(1, n + 1), k):
                            if r.random() > (1.0 if n <= 2 else (0.25 if not thorough else (1.0 if n <= 3 else 0.1))):
                                continue
                            deaf = [i in dset for i in range(1, n + 1)]
                            op, k1 = stuck_order(r, range(1, P + 1), deaf)
                            of, k2 = stuck_order(r, range(P + 1, n + 1), deaf)
                            cancel_at = r.randint(0, n) if r.random() < 0.34 else None
                            out.append([{"ev": "Cfg", "P": P, "B": B, "style": style, "deaf": deaf,
                                         "out": [r.choice(VARIANTS[c]) for c in cls]}]
                                       + as_coded(P, B, cls, op, of, cancel_at, r.choice(["cancel", "deadline"]), False,
                                                  set(k1) | set(k2)))
    return out


def random_schedules(seed, n):
    r = vlib.rng(seed, "c19rnd")
    out = []
    for _ in range(n):
        kind = r.choice(["mixed", "allunavail", "allother", "lateok", "hangs", "cancel", "precancel", "nokmix", "big",
                         "stuckok", "stuckok", "stuckcancel", "stuckfall", "stuckmix"])
        P = r.randint(1, 4)
        B = r.randint(0, 2)
        if kind == "big":
            P, B = r.randint(4, 6), r.randint(0, 3)
        style = r.choice(["att", "sync", "submit"])
        if kind == "nokmix":
            style = "sync"
        cs = classes_of(style)
        fail = [c for c in cs if c in ("unavail", "other", "nok")]
        if kind == "allunavail":
            cls = ["unavail"] * P
        elif kind == "allother":
            cls = ["other"] * P
        elif kind == "lateok":
            cls = [r.choice(fail + ["hang"]) for _ in range(P)]
            cls[r.randrange(P)] = "ok"
        elif kind == "hangs":
            cls = [r.choice(["hang", "hang", "ok", "unavail", "other"]) for _ in range(P)]
        elif kind == "nokmix":
            cls = [r.choice(["nok", "nok", "unavail", "other"]) for _ in range(P)]
        else:
            cls = [r.choice(cs) for _ in range(P)]
        cls += [r.choice(cs) for _ in range(B)]
        prim = list(range(1, P + 1))
        fall = list(range(P + 1, P + B + 1))
        deaf = [False] * (P + B)
        keep = set()
        if kind == "stuckok":         # a primary answers successfully while another one is stuck (never / late released)
            P = max(P, 2)
            cls = [r.choice(cs) for _ in range(P)] + cls[len(prim):]
            prim, fall = list(range(1, P + 1)), list(range(P + 1, P + B + 1))
            deaf = [False] * (P + B)
            ok = r.randrange(P)
            cls[ok] = "ok"
            for i in r.sample([j for j in range(P) if j != ok], r.randint(1, min(2, P - 1))):
                deaf[i] = True
                if r.random() < 0.5:
                    cls[i] = r.choice(["ok", "hang"])
        elif kind == "stuckcancel":   # the caller cancels while a stuck node and one that honours its context are running
            P = max(P, 2)
            cls = [r.choice(["hang", "hang", "ok", "unavail", "other"]) for _ in range(P)] + cls[len(prim):]
            prim, fall = list(range(1, P + 1)), list(range(P + 1, P + B + 1))
            deaf = [False] * (P + B)
            for i in r.sample(range(P), r.randint(1, P - 1)):
                deaf[i] = True
        elif kind == "stuckfall":     # the fallback stage is consulted and has a stuck node next to one that answers
            B = max(B, 2)
            cls = ["unavail"] * P + [r.choice(cs) for _ in range(B)]
            prim, fall = list(range(1, P + 1)), list(range(P + 1, P + B + 1))
            deaf = [False] * (P + B)
            ok = P + r.randrange(B)
            if r.random() < 0.7:
                cls[ok] = "ok"
            for i in r.sample([j for j in range(P, P + B) if j != ok], r.randint(1, B - 1)):
                deaf[i] = True
        elif kind == "stuckmix":
            deaf = [r.random() < 0.4 for _ in range(P + B)]
        op = r.sample(prim, P)
        if kind == "lateok":  # the successful node answers last of those that answer
            ok = [i for i in op if cls[i - 1] == "ok"]
            op = [i for i in op if cls[i - 1] != "ok"] + ok
        of = r.sample(fall, B)
        if any(deaf):
            op, k1 = stuck_order(r, prim, deaf)
            of, k2 = stuck_order(r, fall, deaf)
            keep = set(k1) | set(k2)
        cancel_at = None
        pre = False
        how = r.choice(["cancel", "deadline"])
        if kind in ("cancel", "stuckcancel") or r.random() < 0.15:
            cancel_at = r.randint(0, P + B)
            if kind == "stuckcancel":
                cancel_at = r.randint(0, max(0, P - 1 - len([i for i in prim if i in keep or cls[i - 1] == "hang"])))
        if kind == "precancel":
            pre = True
        steps = as_coded(P, B, cls, op, of, cancel_at, how, pre, keep)
        if r.random() < 0.2:  # releases in an order that mixes primaries and fallbacks (unconsulted ones are skipped)
            head, tail = steps[:1 + (1 if pre else 0)], steps[1 + (1 if pre else 0):]
            r.shuffle(tail)
            steps = head + tail
        out.append([{"ev": "Cfg", "P": P, "B": B, "style": style, "deaf": deaf,
                     "out": [r.choice(VARIANTS[c]) for c in cls]}] + steps)
    return out


# Finding C19-notsynced-no-fallback (pending_fixes/C19-notsynced-fallback.diff): a few dedicated schedules in which the
# primaries answer client.ErrNotSynced; on the pinned tree they are accepted only by the deviation cfg.  Remove DEV_CFGS
# once the fix is committed (a fixed defect has no deviation, so it is reported again if it returns).
DEV_CFGS = []   # the not-synced defect was repaired by a fix: commit; a fixed finding suppresses nothing


def notsynced_schedules():
    rel = lambda *ids: [{"ev": "NodeDone", "i": i} for i in ids]
    return [
        [{"ev": "Cfg", "P": 1, "B": 1, "style": "att", "out": ["notsynced", "ok"]}, {"ev": "Call"}] + rel(1, 2),
        [{"ev": "Cfg", "P": 2, "B": 1, "style": "submit", "out": ["notsynced", "notsynced", "ok"]}, {"ev": "Call"}] + rel(2, 1, 3),
        # next to an error the code does recognise: the decision follows the LAST examined failure
        [{"ev": "Cfg", "P": 2, "B": 1, "style": "att", "out": ["notsynced", "timeout", "ok"]}, {"ev": "Call"}] + rel(1, 2, 3),
        [{"ev": "Cfg", "P": 2, "B": 1, "style": "att", "out": ["timeout", "notsynced", "ok"]}, {"ev": "Call"}] + rel(1, 2, 3),
        # a successful primary next to a syncing one: no fallback needed
        [{"ev": "Cfg", "P": 2, "B": 1, "style": "att", "out": ["notsynced", "ok", "ok"]}, {"ev": "Call"}] + rel(1, 2),
    ]


# Finding C19-cancel-waits-for-deaf-node (pending_fixes/C19-cancel-waits-for-deaf-node.diff): provide() notices the
# caller's cancellation only when the next result arrives; while EVERY running request of the stage ignores its context
# the cancelled call stays blocked.  The generic families validate with CancelMode "either"; this dedicated family
# validates with the property in full (MultiClientTrace_prompt.cfg), on the pinned tree its first three schedules are
# accepted only by the deviation cfg (CancelMode "coded").  Remove CANCEL_DEV once the fix is committed.
TCFG = "MultiClientTrace_prompt.cfg"   # the property in full (cancellation returns promptly) since the fix 36c395e
CANCEL_DEV = []   # fixed in /repo 36c395e (was: [("C19-cancel-waits-for-deaf-node", "MultiClientTrace_coded.cfg")])


def canceldeaf_schedules():
    rel = lambda *ids: [{"ev": "NodeDone", "i": i} for i in ids]
    can = lambda how: [{"ev": "CancelCaller", "how": how}]
    cfg = lambda P, B, style, out, deaf: [{"ev": "Cfg", "P": P, "B": B, "style": style, "out": out,
                                           "deaf": [i in deaf for i in range(1, P + B + 1)]}, {"ev": "Call"}]
    return [
        # the only primary is stuck, the caller cancels, the node is released a (virtual) second later
        cfg(1, 0, "att", ["ok"], {1}) + can("cancel") + rel(1),
        # both primaries stuck (one for good), submit-style, the caller's deadline passes; nobody is released
        cfg(2, 0, "submit", ["ok", "hang"], {1, 2}) + can("deadline"),
        # fallback stage: the primaries are unavailable, the only fallback is stuck
        cfg(2, 1, "att", ["timeout", "refused", "ok"], {3}) + rel(1, 2) + can("cancel") + rel(3),
        # must pass also on the pinned tree: next to the stuck node one that honours its context is running
        cfg(2, 0, "att", ["ok", "hang"], {1}) + can("cancel") + rel(1),
        cfg(2, 0, "submit", ["e500", "ok"], {1}) + can("deadline"),
        cfg(1, 2, "sync", ["syncing503", "hang", "ok"], {3}) + rel(1) + can("cancel") + rel(3),
    ]


def shift(t, i, d=1):
    """events i.. happen d virtual seconds later"""
    for e in t[i:]:
        if "t" in e:
            e["t"] += d
    return t


def mutators():
    def wrong_by(t):
        for e in t:
            if e.get("ev") == "Return" and e["kind"] == "ok" and e["by"] > 0 and t[0]["P"] + t[0]["B"] > 1:
                e["by"] = e["by"] % (t[0]["P"] + t[0]["B"]) + 1
                return t
        return None

    def drop_return(t):
        for i, e in enumerate(t):
            if e.get("ev") == "Return":
                del t[i]
                return t
        return None

    def late_return(t):
        # the answer of a successful node only comes back after one more node was released: "waits for slower nodes"
        for i, e in enumerate(t):
            if e.get("ev") == "Return" and e["kind"] == "ok" and t[i - 1].get("ev") == "NodeDone":
                done = {x["i"] for x in t if x.get("ev") == "NodeDone"}
                rest = [n for n in t[i - 1]["started"] if n not in done]
                if rest:
                    shift(t, i)
                    t.insert(i, {"ev": "NodeDone", "i": rest[0], "started": t[i - 1]["started"], "t": t[i]["t"]})
                    return t
        return None

    def stuck_nodes(t, upto):
        """deaf nodes invoked and not released before event `upto`"""
        done = {x["i"] for x in t[:upto] if x.get("ev") == "NodeDone"}
        st = [x["started"] for x in t[:upto] if "started" in x]
        return [n for n in (st[-1] if st else []) if t[0]["deaf"][n - 1] and n not in done]

    def return_after_stuck_release(t):
        # the successful answer comes back only when the node that ignores its context has been released
        for i, e in enumerate(t):
            if e.get("ev") == "Return" and e["kind"] == "ok" and t[i - 1].get("ev") == "NodeDone":
                d = [n for n in stuck_nodes(t, i) if t[0]["out"][n - 1] != "hang"]
                if d:
                    shift(t, i)
                    t.insert(i, {"ev": "NodeDone", "i": d[0], "started": t[i - 1]["started"], "t": t[i]["t"]})
                    return t
        return None

    def cancel_after_stuck_release(t):
        # a cancelled call (a node that honours its context is running) returns only when the stuck node is released
        for i, e in enumerate(t):
            if e.get("ev") == "Return" and t[i - 1].get("ev") == "CancelCaller":
                d = [n for n in stuck_nodes(t, i) if t[0]["out"][n - 1] != "hang"]
                heard = [n for n in t[-1]["cancelled"] if not t[0]["deaf"][n - 1]]
                if d and heard:
                    shift(t, i)
                    t.insert(i, {"ev": "NodeDone", "i": d[0], "started": t[i - 2]["started"], "t": t[i]["t"]})
                    return t
        return None

    def return_never_with_stuck(t):
        # the call is still blocked at the end of the schedule (the stuck node was never released)
        for i, e in enumerate(t):
            if e.get("ev") == "Return" and e["kind"] == "ok" and stuck_nodes(t, i):
                del t[i]
                return t
        return None

    def return_time_late(t):
        for e in t:
            if e.get("ev") == "Return":
                e["t"] += 1
                return t
        return None

    def spurious_fallback(t):
        # fallbacks invoked although a primary answered successfully
        P, B = t[0]["P"], t[0]["B"]
        if B == 0:
            return None
        for i, e in enumerate(t):
            if e.get("ev") == "NodeDone" and e["i"] <= P and t[0]["out"][e["i"] - 1] == "ok" and len(e["started"]) == P:
                e["started"] = e["started"] + [P + 1]
                return t
        return None

    def no_fallback(t):
        # all primaries failed with unavailability errors, yet the failure is reported without consulting fallbacks
        P, B = t[0]["P"], t[0]["B"]
        for i, e in enumerate(t):
            if e.get("ev") == "NodeDone" and e["i"] <= P and len(e["started"]) > P and len(t[i - 1].get("started", [])) == P \
                    and all(v in VARIANTS["unavail"] for v in t[0]["out"][:P]):
                e["started"] = t[i - 1]["started"]
                return t[:i + 1] + [{"ev": "Return", "kind": "err", "by": e["i"], "t": e["t"]},
                                    {"ev": "End", "started": e["started"], "cancelled": [], "t": e["t"] + 1}]
        return None

    def not_cancelled(t):
        for e in t:
            if e.get("ev") == "End" and e["cancelled"] and any(x.get("ev") == "Return" for x in t):
                e["cancelled"] = e["cancelled"][1:]
                return t
        return None

    def fail_with_ok_pending(t):
        # a failure reported while a primary that would answer is still running: "fail fast"
        P = t[0]["P"]
        for i, e in enumerate(t):
            if e.get("ev") == "NodeDone" and e["i"] <= P and t[0]["out"][e["i"] - 1] not in ("ok", "nok", "hang"):
                done = {x["i"] for x in t[:i + 1] if x.get("ev") == "NodeDone"}
                if any(t[0]["out"][j - 1] == "ok" and j not in done for j in range(1, P + 1)) and \
                        not any(x.get("ev") == "CancelCaller" for x in t[:i]):
                    return t[:i + 1] + [{"ev": "Return", "kind": "err", "by": e["i"], "t": e["t"]},
                                        {"ev": "End", "started": e["started"], "cancelled": [], "t": e["t"] + 1}]
        return None
    return [("returned value attributed to another node", wrong_by), ("Return event dropped", drop_return),
            ("success returned only after a further node was released", late_return),
            ("fallback invoked although a primary succeeded", spurious_fallback),
            ("no fallback although all primary failures are unavailability", no_fallback),
            ("a still running worker not cancelled after the return", not_cancelled),
            ("failure reported while a successful primary is pending", fail_with_ok_pending),
            ("success returned only after the node that ignores its context was released", return_after_stuck_release),
            ("cancelled call returns only after the stuck node was released", cancel_after_stuck_release),
            ("call with a successful answer still blocked behind a stuck node at the end", return_never_with_stuck),
            ("Return stamped with a later virtual time than the deciding stimulus", return_time_late)]


def run(tier, seed):
    o = vlib.Outcome("C19", tier, seed)
    thorough = tier == "thorough"
    # stage 0: design check (fallback decision as coded), liveness under fairness, the property-level ("free")
    # variant that trace validation uses, and two controls that MUST be violated
    for cfg in (["MultiClientMC.cfg", "MultiClientMC_live.cfg", "MultiClientMC_prompt.cfg"] if thorough else
                ["MultiClientMC_quick.cfg", "MultiClientMC_live_quick.cfg"]) + \
            ["MultiClientMC_free.cfg" if thorough else "MultiClientMC_free_quick.cfg"]:
        r = vlib.tlc("C19", FAMILY, "MultiClientMC", cfg, timeout=1500)
        vlib.require_mc_ok(r, cfg)
        o.add_mc(cfg[:-4], r)
    for cfg, inv, what in (("MultiClientMC_anyerr.cfg", "FallbackRule", "fallback on any error (4xx too)"),
                           ("MultiClientMC_failfast.cfg", "FailOnlyIfAllFail", "fork-join with fail-fast"),
                           ("MultiClientMC_waitall.cfg", "PromptReturn",
                            "the return waits for every started request (forkjoin WithWaitOnCancel)"),
                           ("MultiClientMC_canceldeaf.cfg", "CancelPromptInv",
                            "as coded: cancellation noticed only at the next result (finding C19-cancel-waits-for-deaf-node)")):
        r = vlib.tlc("C19", FAMILY, "MultiClientMC", cfg, timeout=600)
        if r.violation != inv:
            raise vlib.Infra("design-spec control failed: '%s' variant not caught by %s: %s" % (what, inv, r.summary()))
        o.selftests.append({"control": "spec variant '%s' violates %s" % (what, inv), "rejected_as_required": True})
    # stage 1: schedules
    g, _ = vlib.gen_schedules("C19", FAMILY, "MultiClientGen", "MultiClientGen.cfg", num=3000 if thorough else 400,
                              depth=20, seed=seed, limit=20000 if thorough else 2500)
    rv = vlib.rng(seed, "c19var")
    scheds = [concretise(rv, s) for s in g]
    enum = enumerated(seed, thorough)
    enum_stuck = enumerated_stuck(seed, thorough)
    rnd = random_schedules(seed, 20000 if thorough else 2500)
    # HISTORY: a third of the random and enumerated-stuck schedules are preceded by 1..3 earlier calls on the same multi
    # client that one node answered while the others were slower (cfg warm / warmby) - the judged call is judged on its
    # own, the history only lets a client that remembers a "best" node lean on it
    rh = vlib.rng(seed, "c19hist")

    def with_history(scheds, p):
        out = []
        for s in scheds:
            x = rh.random()
            if x < p:
                c = dict(s[0])
                c["warm"], c["warmby"] = rh.randint(1, 3), rh.randint(1, c["P"] + c["B"])
                if x < p / 2:
                    # LAZY nodes (connect on first use, as NewMultiHTTP builds them) some of which were DOWN during the history
                    # (their connection attempts failed) and are back for the judged call
                    c["lazy"] = True
                    others = [i for i in range(1, c["P"] + c["B"] + 1) if i != c["warmby"]]
                    c["connfail"] = sorted(rh.sample(others, rh.randint(0, len(others)))) if others else []
                s = [c] + list(s[1:])
            elif x < p + 0.1:
                c = dict(s[0])
                c["lazy"] = True
                s = [c] + list(s[1:])
            out.append(s)
        return out
    rnd = with_history(rnd, 0.33)
    enum_stuck = with_history(enum_stuck, 0.33)
    enum = with_history(enum, 0.2)
    # stage 2+3
    vlib.conformance(o, FAMILY, "MultiClientTrace", TCFG, "c19", scheds, tag="tlcgen")
    vlib.conformance(o, FAMILY, "MultiClientTrace", TCFG, "c19", enum, tag="enum")
    vlib.conformance(o, FAMILY, "MultiClientTrace", TCFG, "c19", enum_stuck, tag="enumstuck")
    vlib.conformance(o, FAMILY, "MultiClientTrace", TCFG, "c19", rnd, tag="random")
    vlib.conformance(o, FAMILY, "MultiClientTrace", "MultiClientTrace.cfg", "c19", notsynced_schedules(), tag="notsynced",
                     dev_cfgs=DEV_CFGS)
    vlib.conformance(o, FAMILY, "MultiClientTrace", "MultiClientTrace_prompt.cfg", "c19", canceldeaf_schedules(),
                     tag="canceldeaf", dev_cfgs=CANCEL_DEV, max_report=6)
    # binding negative controls on recorded traces
    tr = vlib.split_traces(vlib.read_ndjson(vlib.workdir("C19") + "/trace_random.ndjson"))
    vlib.binding_selftest(o, FAMILY, "MultiClientTrace", "MultiClientTrace.cfg", tr, mutators())
    if len(o.selftests) < 4 + 11 and not o.violations:
        raise vlib.Infra("binding self-test: some negative control found no applicable trace")
    return vlib.finish(o, "model_checking", RULE,
                       ["beacon nodes are gated mocks; each either honours its request context or ignores it (then it answers "
                        "only when the schedule releases it, possibly never); quiescence = testing/synctest: every goroutine of "
                        "the call durably blocked; promptness = the Return is recorded right after, and at the virtual time of, "
                        "the deciding stimulus (first successful result / last failure / caller's cancellation)",
                        "generic families leave open whether a cancelled call returns while EVERY running request ignores its "
                        "context (finding C19-cancel-waits-for-deaf-node); the dedicated family 'canceldeaf' demands it",
                        "error values are built as go-eth2-client's http service returns them (api.Error, url.Error, net.OpError, "
                        "syscall errno, ErrNotActive); 500 without syncing text, 4xx and 429 count as 'other'",
                        "fallback is REQUIRED when all primary failures are of an unavailability class, FORBIDDEN when none is (and "
                        "none is an unsuccessful output), either when mixed; which failed node's error is reported and which ctx "
                        "error a cancelled call reports is left open",
                        "design check exhaustive for P<=3 primaries, B<=2 fallbacks (quick: B<=1), at most 2 (quick: 1) nodes that ignore "
                        "their context; conformance up to P=6, B=3, any number of such nodes"])


def replay(path):
    import json
    rp = json.load(open(path))
    o = vlib.Outcome("C19", "quick", 0)
    vlib.conformance(o, FAMILY, rp["trace_module"], rp["trace_cfg"], rp["pkg"], [rp["schedule"]], tag="replay")
    for p, t in o.violations:
        log("replay: " + t)
    return 1 if o.violations else 0
